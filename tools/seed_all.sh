#!/bin/bash
# seed_all.sh: re-run, for every seeded change, the quick checks recorded as catching it (scratch
# worktree /root/mutwt, never /repo) and report any that no longer does.
cd /verif
export VERIF_BUDGET_S=${VERIF_BUDGET_S:-900}   # a loaded machine must not turn into "missed"
for d in seeded/*/; do
  name=$(basename $d)
  checks=$(python3 -c "import json;print(' '.join(json.load(open('$d/meta.json'))['caught_by']))")
  [ -n "${FIRST_ONLY:-}" ] && checks=$(echo $checks | cut -d' ' -f1)   # FIRST_ONLY=1: only the first recorded check
  out=$(./tools/seed_run_wt.sh $name quick $checks 2>&1)
  miss=$(echo "$out" | grep -c "exit=0 ")
  err=$(echo "$out" | grep -c "exit=2 \|does not apply")
  echo "$name: checks [$checks] missed=$miss errors=$err"
  echo "$out" | grep "exit=0 \|exit=2 \|does not apply" | cut -c1-160
done
