#!/bin/bash
# seed_confirm.sh <worktree> <seed-name>: confirm a sub-agent's seeded change independently:
#  (1) patch applies to a clean checkout, (2) with it the full pinned suite passes, (3) the demo fails with
#  it and (4) passes without it. On success copies patch.diff, the demo and notes to /verif/seeded/<name>/.
set -u
wt=$1; name=$2
export GOFLAGS=-mod=mod GOPROXY=off GOSUMDB=off GOTOOLCHAIN=local
cd "$wt" || exit 2
[ -f SEED/patch.diff ] || { echo "no SEED/patch.diff"; exit 2; }
mkdir -p /root/seedtmp/$name && cp -r SEED/. /root/seedtmp/$name/
git checkout -q -- . && git clean -qfd
git apply --check /root/seedtmp/$name/patch.diff || { echo "patch does not apply"; exit 1; }
cp /root/seedtmp/$name/seed_demo_test.go ./seed_demo_test.go
go test -vet=off -count=1 -run '^TestSeedDemo$' . > /root/seedtmp/$name/demo_without.log 2>&1; r_without=$?
git apply /root/seedtmp/$name/patch.diff
go test -vet=off -count=1 -run '^TestSeedDemo$' . > /root/seedtmp/$name/demo_with.log 2>&1; r_with=$?
rm -f seed_demo_test.go
/verif/run_baseline.sh "$wt" > /root/seedtmp/$name/suite_with.log 2>&1; r_suite=$?
git checkout -q -- . && git clean -qfd
echo "$name: demo without change exit=$r_without (want 0); demo with change exit=$r_with (want !=0); suite with change exit=$r_suite (want 0)"
tail -1 /root/seedtmp/$name/suite_with.log
if [ $r_without -eq 0 ] && [ $r_with -ne 0 ] && [ $r_suite -eq 0 ]; then
  mkdir -p /verif/seeded/$name
  cp /root/seedtmp/$name/patch.diff /root/seedtmp/$name/seed_demo_test.go /verif/seeded/$name/
  [ -f /root/seedtmp/$name/notes.md ] && cp /root/seedtmp/$name/notes.md /verif/seeded/$name/agent_notes.md
  echo CONFIRMED
else
  echo NOT-CONFIRMED; exit 1
fi
