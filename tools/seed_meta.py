#!/usr/bin/env python3
"""seed_meta.py <name> <property> <needs> <caught_by comma list> [missed_by comma list] -- writes /verif/seeded/<name>/meta.json"""
import json,sys
name,prop,needs,caught=sys.argv[1:5]
missed=sys.argv[5] if len(sys.argv)>5 else ""
m={"seed":name,"breaks_property":prop,"origin":"independent sub-agent given only the property text and a scratch worktree",
 "needs_to_manifest":needs,
 "confirmed_by":"tools/seed_confirm.sh in a scratch worktree: patch applies to the pinned commit; pinned suite (247 tests) passes with the change; seed_demo_test.go fails with it and passes without it",
 "checks_run":"tools/seed_run.sh (git -C /repo apply; ./check.sh <id> quick; git -C /repo checkout -- .)",
 "caught_by":[c for c in caught.split(',') if c],"missed_by":[c for c in missed.split(',') if c]}
json.dump(m,open(f'/verif/seeded/{name}/meta.json','w'),indent=1)
