#!/usr/bin/env python3
"""Own mutants (DESIGN section 10): each is an exact-text replacement in a scratch worktree of /repo
(/root/mutwt, never /repo itself). For each: apply, make sure it compiles, optionally run the pinned suite,
run the named quick checks built against the scratch worktree, revert. Usage: mutants.py [name-substring] [--suite]"""
import subprocess, sys, os, json
WT='/root/mutwt'
ENV=dict(os.environ, GOFLAGS='-mod=mod', GOPROXY='off', GOSUMDB='off', GOTOOLCHAIN='local',
         VERIF_REPO=WT, VERIF_BUILD='/root/mutbuild', VERIF_EVIDENCE_DIR='/root/mutbuild/evidence')
M=[
 ('calcNextPosition-shift','utils.go','higherBits := uint64(1<<toRow) << uint64(forestRows-toRow)','higherBits := uint64(1<<toRow) << uint64(forestRows-posRow)',['C01','C02']),
 ('stump-add-skip-empty-test','stump.go','			if root != empty {\n','			if true {\n',['C01','C11']),
 ('pollard-prove-drop-sort','prove.go','	sort.Slice(sortedTargets, func(a, b int) bool { return sortedTargets[a] < sortedTargets[b] })\n','',['C02']),
 ('verify-first-candidate-only','stump.go','	if len(rootCandidates) != len(rootIndexes) {\n		// The proof is invalid because some root candidates were not','	if len(rootIndexes) == 0 && len(rootCandidates) != 0 {\n		// The proof is invalid because some root candidates were not',['C03']),
 ('verify-drop-length-check','stump.go','	if len(delHashes) != len(proof.Targets) {\n		return nil, fmt.Errorf("Verify fail. Was given %d targets but got %d "+','	if false {\n		return nil, fmt.Errorf("Verify fail. Was given %d targets but got %d "+',['C04','C03']),
 ('mappollard-remove-use-unsorted-targets','mappollard.go',None,None,['C05']),
 ('mappollard-undoSingleAdd-skip-placeEmptyRoot','mappollard.go','				err := m.placeEmptyRoot(lChild)\n','				var err error\n',['C06']),
 ('updateProofRemove-skip-getNewPositions','prove.go',None,None,['C07']),
 ('undoDel-drop-sort','prove.go',None,None,['C08']),
 ('prune-stop-early','mappollard.go',None,None,['C09']),
 ('rootsToDestroy-rows','stump.go','rootPos := rootPosition(numLeaves, h, TreeRows(numLeaves+(numAdds-i)))','rootPos := rootPosition(numLeaves, h, TreeRows(numLeaves+numAdds))',['C11']),
 ('modify-release-lock-between-remove-and-add','mappollard.go','	err := m.remove(proof, delHashes)\n	if err != nil {\n		return err\n	}\n\n	err = m.add(adds)','	err := m.remove(proof, delHashes)\n	if err != nil {\n		return err\n	}\n	m.rwLock.Unlock()\n	m.rwLock.Lock()\n\n	err = m.add(adds)',['C12']),
 ('getroots-no-lock','mappollard.go','func (m *MapPollard) GetRoots() []Hash {\n	m.rwLock.RLock()\n	defer m.rwLock.RUnlock()\n','func (m *MapPollard) GetRoots() []Hash {\n',['C12']),
 ('readOne-nodemap-regardless-of-leaf-flag','pollard.go','	if buf[0] == 1 {\n		if n.data != empty {\n			p.NodeMap[n.data.mini()] = n\n		}\n	}','	if buf[0] == 1 || true {\n		if n.data != empty {\n			p.NodeMap[n.data.mini()] = n\n		}\n	}',['C13','C10']),
 ('serializesize-off','pollard.go','return int((count * 32) + 16 + (count * 2))','return int((count * 32) + 16 + (count * 2) + (count &^ 7))',['C13']),
 ('addproof-skip-targets-subtraction','prove.go',None,None,['C14']),
 ('schedule-replacement-ge','prove.go','				if cache[k].ttl > ttl.ttl {','				if cache[k].ttl >= ttl.ttl {',['C15']),
 ('parentmany-rise','utils.go','mask << uint64(forestRows-(rise-1))','mask << uint64(forestRows-rise)',['C16']),
 ('pollard-modify-drop-dels-copy','pollard.go',None,None,['C17']),
 ('translatepos-row0-only','utils.go','	offset := pos - startPositionAtRow(row, fromTotalRow)\n	return offset + startPositionAtRow(row, toTotalRow)','	offset := pos - startPositionAtRow(row, fromTotalRow)\n	return offset + startPositionAtRow(row, toTotalRow-0) + uint64(row>>5)',['C16','C01']),
]
def sh(cmd, **kw): return subprocess.run(cmd, shell=True, capture_output=True, text=True, env=ENV, **kw)
def main():
    filt=[a for a in sys.argv[1:] if not a.startswith('--')]
    suite='--suite' in sys.argv
    res=[]
    for name,f,old,new,checks in M:
        if filt and not any(x in name for x in filt): continue
        if old is None:
            print(f'{name}: (site to be located by hand; skipped)'); continue
        sh(f'git -C {WT} checkout -q -- .')
        p=os.path.join(WT,f); s=open(p).read()
        if s.count(old)!=1:
            print(f'{name}: pattern occurs {s.count(old)} times - skipped'); continue
        open(p,'w').write(s.replace(old,new))
        b=sh(f'cd {WT} && go build ./...')
        if b.returncode!=0:
            print(f'{name}: does not compile: {b.stderr[:200]}'); continue
        st='not run'
        if suite:
            r=sh(f'/verif/run_baseline.sh {WT}'); st='suite passes' if r.returncode==0 else 'SUITE FAILS ('+r.stdout.strip().splitlines()[-1][:80]+')'
        outs=[]
        for c in checks:
            r=sh(f'cd /verif && ./check.sh {c} quick')
            sigs=[l.strip() for l in r.stdout.splitlines() if 'violation signature' in l][:2]
            outs.append(f'{c}: exit={r.returncode}' + (f' [{sigs[0][21:110]}]' if sigs else ''))
        print(f'{name}: {st}; '+'; '.join(outs)); sys.stdout.flush()
        res.append((name,st,outs))
    sh(f'git -C {WT} checkout -q -- .')
main()
