#!/bin/bash
# seed_run_wt.sh <seed-name> <tier> <prop>...: like seed_run.sh but in the scratch worktree /root/mutwt
# (a git worktree of /repo at HEAD) so that /repo itself stays untouched while other runs use it.
name=$1; tier=$2; shift 2
WT=/root/mutwt
git -C $WT checkout -q -- . && git -C $WT clean -qfd
git -C $WT checkout -q --detach $(git -C /repo rev-parse HEAD)
git -C $WT apply /verif/seeded/$name/patch.diff || { echo "patch does not apply to HEAD"; exit 2; }
export VERIF_REPO=$WT VERIF_BUILD=/root/mutbuild VERIF_EVIDENCE_DIR=/root/mutbuild/evidence
cd /verif
for p in "$@"; do
  out=$(./check.sh $p $tier 2>&1); rc=$?
  echo "seed=$name check=$p tier=$tier exit=$rc $(echo "$out" | grep -c '^VIOLATION') violation line(s); $(echo "$out" | grep 'violation signature' | head -2 | cut -c1-200 | tr '\n' ' ')"
done
git -C $WT checkout -q -- .
