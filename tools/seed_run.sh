#!/bin/bash
# seed_run.sh <seed-name> <tier> <prop>...: apply /verif/seeded/<name>/patch.diff to /repo, run the named
# checks, and undo the change straight afterwards. Prints one line per check.
name=$1; tier=$2; shift 2
cd /repo || exit 2
if [ -n "$(git status --porcelain)" ]; then echo "/repo not clean"; exit 2; fi
git apply /verif/seeded/$name/patch.diff || exit 2
trap 'cd /repo && git checkout -q -- . ' EXIT
cd /verif
for p in "$@"; do
  out=$(VERIF_EVIDENCE_DIR=/root/seedtmp/evidence ./check.sh $p $tier 2>&1); rc=$?
  echo "seed=$name check=$p tier=$tier exit=$rc $(echo "$out" | grep -c '^VIOLATION') violation line(s); $(echo "$out" | grep 'violation signature' | head -2 | tr '\n' ' ')"
done
