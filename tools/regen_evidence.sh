#!/bin/bash
# regenerates every evidence file by running every registered quick check in /verif against /repo
cd /verif
rc=0
for p in C01 C02 C03 C04 C05 C06 C07 C08 C09 C10 C11 C12 C13 C14 C15 C16 C17; do
  out=$(./check.sh $p quick 2>&1); r=$?
  echo "$p exit=$r $(echo "$out" | tail -1 | cut -c1-170)"
  [ $r -ne 0 ] && rc=1
done
./validate.sh
exit $rc
