#!/bin/bash
# seed_pipeline.sh <worktree> <seed-name> <prop>...: confirm a sub-agent's change (seed_confirm.sh), then run the
# named quick checks against it in the scratch worktree /root/mutwt (seed_run_wt.sh). /repo is never touched.
wt=$1; name=$2; shift 2
cd /verif
./tools/seed_confirm.sh "$wt" "$name" 2>&1 | tail -3 | grep -v "^baseline" 
[ -d /verif/seeded/$name ] || exit 1
./tools/seed_run_wt.sh "$name" quick "$@"
