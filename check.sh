#!/bin/bash
# check.sh <property> <quick|thorough>: rebuild from /repo's working tree, run the check,
# write /verif/evidence/<property>.json. Exit 0 = held, 1 = VIOLATION, 2 = harness/build error.
set -u
cd /verif
id=${1:?property id}
tier=${2:-${VERIF_TIER:-quick}}
OUT=${VERIF_BUILD:-/verif/build}
bin=vmc
case "$id" in C12|C16) bin=vmcx;; esac
if [ "$id" = C12 ]; then
  if ! out=$(./build.sh vmcx 2>&1 && ./build.sh vmcxrace 2>&1); then
    echo "$out"
    echo "BUILD FAILED: the checker could not be built against the repository's working tree"
    exit 2
  fi
  export VERIF_RACE_BIN=$OUT/vmcxrace
elif ! out=$(./build.sh $bin 2>&1); then
  echo "$out"
  echo "BUILD FAILED: the checker could not be built against the repository's working tree"
  exit 2
fi
exec $OUT/$bin check "$id" "$tier"
