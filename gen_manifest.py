#!/usr/bin/env python3
"""Regenerates /verif/MANIFEST.json from the table below (keeps the manifest valid at all times)."""
import json, sys

BASELINE_OFF = ("cd /repo && GOFLAGS=-mod=mod GOPROXY=off GOSUMDB=off GOTOOLCHAIN=local "
                "go test -json -vet=off -count=1 -timeout 25m ./...")

TB = ("trusted base: the reference forest (/verif/vmc/ref, ~400 lines, written from the property text with its own "
      "position arithmetic), SHA-256/SHA-512/256 collision freedom on the alphabet, the Go toolchain; bounded: nothing "
      "is claimed beyond the stated bound")

# id -> (engine, technique, level text, design ref, extra note)
CLAIMED = {
    "C01": ("hist", "explicit-state BFS over block histories on the real code vs reference model",
            "Every block history with at most Nmax leaves ever added (all deletion subsets x all addition counts) is executed "
            "on fresh Stump, Pollard and MapPollard instances (full and three partial driving modes, TotalRows 0..63) and the "
            "leaf count and ordered roots are compared with the definitional reference forest after every transition; "
            "states are de-duplicated on a canonical dump of the concrete implementation state. Exhaustive within the bound, "
            "which is where batching/zombie-root/power-of-two corner cases live.", "6 C01"),
    "C02": ("hist", "explicit-state BFS over block histories; all leaf subsets x request orders per state vs reference proofs",
            "In every state of the C01 search every non-empty subset of the leaves an instance tracks is requested from every prover "
            "(Pollard, full and partial MapPollard, several TotalRows) in all permutations for small sets and sorted/reversed/rotated "
            "order otherwise; returned targets and proof hashes must equal the reference model's canonical proof, every verifier must "
            "accept it and Verify must report exactly the trees containing the targets. Exhaustive within Nmax.", "6 C02"),
    "C06": ("hist", "explicit-state BFS over block histories with Undo transitions (budgeted) vs reference model",
            "Undo is a transition of the search (newest first, budget 2-3 per path, arbitrary interleaving with further blocks, so "
            "undo depth k and redo on the same or another branch are covered). After every transition on a path containing an undo the "
            "roots, leaf count, every leaf's position, provable set, byte-identical canonical proofs and GetHash of every position are "
            "compared with the reference forest of the model state, for Pollard, full and partial MapPollard.", "6 C06"),
    "C10": ("hist", "explicit-state BFS over block histories (+undo, restore, verify-remember) with exhaustive look-up probing per state",
            "In every reached state (forward up to Nmax 8-9; with undo, serialize/restore and Verify(remember) transitions up to Nmax 4-5) "
            "GetLeafPosition/GetLeafHashPositions are probed with every leaf ever added, every internal-node hash, a fresh and the zero hash, "
            "GetHash with every position in [0,2^(rows+1)+2] and four giant values, and the tracked-leaf counts are compared with the reference.", "6 C10"),
    "C16": ("geom", "exhaustive enumeration of position-function arguments vs reference geometry",
            "Every exported position function (Parent, LeftChild, RightChild, ParentMany, ChildMany, DetectRow, TreeRows, RootPositions, DetectOffset, "
            "ProofPositions, and translatePos through a build-time export) is evaluated on every node of every forest height up to Hsmall, on a boundary grid "
            "of offsets for all heights up to 63, on every leaf count up to 2^Hn plus the 2^k grid up to 2^64-1, on every node of every forest up to Noff leaves "
            "(DetectOffset) and on every non-nested target subset of small forests in several allocated heights (ProofPositions), and compared with the reference "
            "row geometry (itself cross-checked against math/big).", "6 C16"),
    "C07": ("light", "explicit-state BFS over light-client histories (Stump.Update + Proof.Update) vs reference model and a full prover",
            "Every light-client history with at most Nmax leaves ever added (every deletion subset x every addition count x every subset of the additions to remember), "
            "starting from the empty cached proof, is executed with Stump.Update + Proof.Update on a client that holds only stump, proof and hashes; after every transition "
            "the held (hash, position) pairs must be exactly previous minus deleted plus remembered, at the reference positions, with exactly the canonical proof hashes, "
            "accepted by Verify and equal to what a Pollard run alongside proves for those leaves.", "6 C07"),
    "C08": ("light", "explicit-state BFS over light-client histories with Proof.Undo transitions (budgeted) vs reference model",
            "The C07 search extended with Undo transitions (Proof.Undo with the undone block's own data, newest first, two undos per path, arbitrary further blocks after "
            "them): after every undo and every later update the held set must be exactly the held leaves that existed before the block (block-deleted leaves may or may not "
            "return), never a leaf the undone block added or an invented one, with reference positions, canonical hashes, accepted by Verify against the pre-block stump and "
            "equal to the full prover's proof. Also run from bare roots of accumulators with up to 2^63-4 leaves and on three-block histories over 11-17 leaves. The defect this check found (former known finding KF-1) has been repaired.", "6 C08"),
    "C11": ("light", "explicit-state BFS over stump histories; UpdateData vs derived reference oracles per transition",
            "For every transition of the stump history search (every deletion subset x addition count, N<=Nmax) the UpdateData returned by Stump.Update is compared field by field "
            "with oracles derived from the reference forest: PrevNumLeaves; ToDestroy = empty roots consumed by the binary carry, in order, post-block coordinates; NewDelPos/Hash = every "
            "pre-block path position of the deleted targets with the post-deletion subtree hash; NewAddPos/Hash = every added leaf and both children of every created node, sorted, duplicate-free.", "6 C11"),
    "C03": ("inputs", "exhaustive enumeration of (targets, hashes, proof) triples and of edit neighbourhoods of honest proofs against every verifier, vs reference forest",
            "For every accumulator state with at most Nin leaves ever added (every alive subset) and every verifier (Verify, Pollard.Verify, MapPollard.Verify full/partial x TotalRows x remember, "
            "VerifyPartialProof) every (targets, hashes, proof) triple over a small closed alphabet (all positions up to 2^(rows+1)+2 plus giant values; zero, every node hash, a dead leaf, a fresh hash) "
            "with |targets|<=T, |proof|<=P is executed; for larger forests every single edit (thorough: every pair of edits) of every honest proof of up to three leaves. Oracle: accepted with non-zero "
            "hashes implies every hash sits at its claimed position in the reference forest (in API coordinates, or for a map forest in its allocated-height coordinates). Five genuine soundness defects "
            "found this way were repaired (fix: commits).", "6 C03"),
    "C04": ("inputs", "exhaustive enumeration of untrusted inputs (incl. length mismatches, giant targets, synthetic giant stumps) against every entry point with a non-termination watchdog",
            "The C03 input space extended with mismatched list lengths and run through every entry point including Stump.Update with 0 and 2 additions, plus synthetic stumps with NumLeaves up to 2^64-1 "
            "and boundary targets up to 2^64-1. Oracle: no panic (recovered and attributed), every call returns (a watchdog re-executes any call without progress for 20 s twice before reporting; "
            "seven orders of magnitude above a normal call), and a Stump.Update that returns an error leaves NumLeaves and every root unchanged. Polynomial time is observed only as termination on every "
            "bounded input.", "6 C04"),
    "C09": ("partial", "explicit-state BFS over the life of a non-full MapPollard (blocks, verify-remember, ingest, prune, undo, from-roots) vs reference model",
            "For each TotalRows setting one non-full MapPollard is driven through every interleaving, up to Nmax leaves ever added, of blocks (every deletion subset x addition count x Remember subset), "
            "Verify(remember=true) and Ingest of every live leaf set (also with a trailing unused proof hash), Prune of every cached subset, Undo (budget 1) and replacement by NewMapPollardFromRoots "
            "(budget 1). On every reached state every stored position must hold the reference hash, the cached-leaf table must be exactly the remembered set at true positions, the stored positions must "
            "lie between (roots + cached leaves + path siblings) and (that + path ancestors), and every subset of the cached leaves must be proven canonically.", "6 C09"),
    "C05": ("enc", "exhaustive enumeration of accepted proof encodings per BFS state, applied to fresh replays on every implementation vs reference model",
            "For every state of the forward search (N<=Nmax) and every non-empty set of live leaves, every encoding of the deletion proof from a closed family (every permutation of the targets, 0-2 trailing "
            "unused proof hashes, AddProof of every two-part split, GetProofSubset of the all-live proof) that Verify accepts is applied with 0, 1 and 2 additions to fresh replays of the state's history on "
            "Stump, Pollard, full MapPollard, partial MapPollard (leaves cached beforehand / cached by Verify(remember) of that same encoding / started from bare roots); leaf count and roots must equal the "
            "reference for exactly the named leaves removed.", "6 C05"),
    "C14": ("helper", "exhaustive enumeration of target-set pairs / sub-lists / orders per accumulator state vs reference canonical proofs",
            "For every accumulator state with N<=Nmax: AddProof and GetMissingPositions on every ordered pair of non-empty live leaf sets, GetProofSubset on every target list in every order x every "
            "sub-list in every order plus every single uncovered want (error expected exactly then), MapPollard.GetMissingPositions + VerifyPartialProof on partial forests for every target set; results "
            "compared with the reference forest's canonical proofs and path sets, and the completed proofs must verify.", "6 C14"),
    "C17": ("hist+light+partial+helper", "argument/result snapshotting around every library call inside the exhaustive searches",
            "The forward+proofs, undo, light-client, partial-forest and proof-helper searches are re-run with every library call wrapped: each caller-owned slice is snapshotted before the call and compared "
            "after it, each previously returned result is kept with a private copy and compared at the end of every path, and the same block data object is reused across Verify, every instance's Modify, Undo "
            "and re-apply. Exhaustive within the hosts' bounds.", "6 C17"),
    "C13": ("faults", "exhaustive enumeration of reader chunkings, truncation points and sink failure points per BFS state; restore as a BFS transition with a never-serialized twin",
            "For every state of the forward search (N<=Ncat) on Pollard and MapPollard (full/partial, several TotalRows, both map iteration orders): restore through every reader of a closed family "
            "(whole, 15 fixed chunk sizes, data-with-EOF, all 256 sequences of four first read sizes over {1,2,8,33}) must reproduce the reference observations and all byte counts / SerializeSize must equal "
            "the stream length; every strict prefix under three reader kinds must give an error or an identical forest; every sink failure offset and failing call must give an error; nothing may panic. "
            "A second search makes serialize/restore a transition followed by every later block and by Undo of pre-restore blocks, with the full observational oracle and a differential comparison against a "
            "twin that was never serialized.", "6 C13"),
    "C15": ("cachesched", "exhaustive enumeration of all block histories (no de-duplication) x all memory limits vs the model's birth/death table",
            "Every block history with at most Nmax leaves ever added and at most D blocks is summarised to a fresh CachingScheduleTracker (reference proof targets, addition counts) and "
            "GenerateCachingSchedule is evaluated for every memory limit from 1 to leaves-ever-added+1; each scheduled position must be the insertion slot of a leaf added in that block and deleted later, "
            "ascending without repeats, never more than the limit alive at once, complete at unbounded memory, no panic. The defect this check found (six signatures, former known findings KF-2..KF-7) has been repaired; "
            "wider/shallower and structured aligned-block passes reach 8-32 leaves.", "6 C15"),
    "C12": ("sched", "stateless model checking: preemption-bounded DFS over schedules of the real MapPollard under a cooperative scheduler; separate free-running -race pass",
            "300+ scenarios (prepared full/partial forests x writer programs Modify / Modify+Undo / Verify(remember) / VerifyPartialProof(remember) / Ingest / Prune / Read x one or two reader threads with one or "
            "two queries from the eleven query kinds) are executed under a cooperative scheduler that owns the RWMutex (sync shim substituted at build time) and every Nodes/CachedLeaves access; every schedule with "
            "at most 2 (thorough: 3) preemptions is explored; per execution: no panic, no deadlock, lock discipline at every map access, every query result equals the sequential result in a whole-block state "
            "admissible for its interval with a consistent order, final state equals the sequential post-state. Unsynchronised accesses outside the seam are the job of the separate free-running -race pass "
            "over the same scenario bodies.", "6 C12"),
}

STRUCT = (" Beyond the unstructured search, closed structured families (DESIGN.md 13.3; each enumerated completely and listed with its size in the evidence's coverage.bound) "
          "take the same oracle to taller and deeper histories: ")
SUFFIX = {
    "C01": STRUCT + "11-13 and 16-65 leaves with aligned-union / window / interval (gap) deletion sets, every two-deletion-block history on 7-9 leaves, 255..1025 leaves, long chains, forests restored from bytes, instances queried at intermediate states, descending target lists and trailing unused proof hashes, Stump / partial forests started from bare roots of accumulators with up to 2^63-4 leaves, and the many-roots family (2^16-1 .. 2^18-1 leaves: 16-18 trees, trees of 17 rows, 131071 additions in one block), and the multi-tree family (14-30 leaves in three or four trees, every tree independently losing nothing / its first leaf / its last leaf / all but the first / everything, then 0..3 additions).",
    "C02": STRUCT + "the C01 families (many-roots family included) with the proof oracle, forests restored from bytes, full forests started from bare roots, instances queried at intermediate states, partial forests that verify-remember and prune (every subset of what is still cached).",
    "C06": STRUCT + "the C01 families each followed by one to four undos, descending target lists / trailing unused proof hashes on blocks, undos and Verify(remember), a cross-feature family (undo x Verify(remember) x restore), three undos in a row, partial forests from bare roots, the many-roots family.",
    "C10": STRUCT + "the C01 families (many-roots family included) with the look-up oracle and instances queried at intermediate states.",
    "C07": STRUCT + "11-17 leaves (three blocks), aligned unions on 16-33 leaves with two-leaf remember sets, the interval (gap) family on 21/27 leaves, every two-deletion-block history on 8-9 leaves, 127..513 leaves, single blocks of 65535 / 65536 / 65537 additions, descending block targets and remember lists, bare roots of accumulators with up to 2^63-4 leaves, the multi-tree family (14-31 leaves, 5^trees deletion sets).",
    "C08": STRUCT + "the C07 families, each undone block by block, and three undos in a row.",
    "C11": STRUCT + "the C07 families without remembering.",
    "C09": STRUCT + "Verify(remember) with allocated-row targets, descending argument lists, 11-17 leaves (three blocks), aligned unions with undo, the interval (gap) family on 21 leaves, every two-deletion-block history on 7-8 leaves undone twice, large caches (257 .. 2600 leaves per Verify / Prune / block), blocks of 65536 additions, forests started from bare roots of accumulators with up to 2^63-4 leaves, and a rejected-call pass (false Verify / VerifyPartialProof with remember and Prune of uncached hashes after every operation).",
    "C05": STRUCT + "states reached through a restore or an undo, structured states on 8-17 leaves, rolled-back states, offset-start states.",
    "C03": STRUCT + "offset-start states (up to 63 proof hashes) and the stale-claim family: instances with a history (blocks, one Verify(remember), one Undo) are offered every honest proof of the neighbouring state - leaf sets and internal nodes, through Verify and VerifyPartialProof, the remembered claim may be about an internal node; and honest proofs extended by about 256 / 512 copies of a false nested claim.",
    "C13": STRUCT + "a size sweep over every forest size 1..140/700 and size-query schedules (SerializeSize / GetTotalCount queried after no / block / undo / every operation), and map forests started from bare roots (up to 2^63-4 leaves) written and restored.",
    "C15": STRUCT + "one tracker asked after every recorded block (every answer checked against the summaries so far), the same summaries with descending target lists, chains of 300 / 520 blocks and one history of 65548 blocks.",
    "C14": STRUCT + "target lists of 300-2600 leaves (evens, odds, halves, all).",
    "C16": STRUCT + "ProofPositions with exactly 256 and 65536 groups moving up from row 0.",
}

NOT_YET = {
}

def main():
    props = [json.loads(l) for l in open('/verif/properties.jsonl')]
    checks, na = [], []
    for p in props:
        pid = p['id']
        if pid in CLAIMED:
            eng, tech, text, ref = CLAIMED[pid]
            checks.append({
                "property_id": pid,
                "quick_cmd": f"./check.sh {pid} quick",
                "thorough_cmd": f"./check.sh {pid} thorough",
                "evidence_file": f"/verif/evidence/{pid}.json",
                "replay_cmd_template": "./replay.sh {path}",
                "engine": eng,
                "level_claimed": {"category": "model_checking", "text": text + SUFFIX.get(pid, ""), "design_ref": "DESIGN.md section " + ref + " and 13.3"},
                "level_note": TB,
                "technique": tech,
            })
        else:
            na.append({"property_id": pid, "reason": NOT_YET.get(pid, "check not built yet in this session; planned as a bounded exhaustive exploration (see DESIGN.md section 6)")})
    m = {
        "version": 1,
        "setup_cmd": "./setup.sh",
        "hooks": {
            "guard": "verif",
            "enable": "no source hooks are committed to /repo: for C12 and C16 ./build.sh builds build/vmcx with `go build -tags verif -overlay` (adds /verif/vmc/overlay/zz_verif_export.go and the verifsync package to package utreexo and rewrites the sync import of a copy of /repo/mappollard.go regenerated on every run); all other checks build /repo's working tree unmodified through a `replace` directive",
            "baseline_off_cmd": BASELINE_OFF,
            "source_commits": [],
            "add_only": True,
        },
        "engines": [
            {"name": "hist", "path": "/verif/vmc/mc/hist.go", "serves_properties": ["C01", "C02", "C06", "C10", "C13", "C17"],
             "kind_free_text": "explicit-state breadth-first search over operation histories; every transition is executed on the real implementation and compared with a reference model"},
            {"name": "light", "path": "/verif/vmc/mc/light.go", "serves_properties": ["C07", "C08", "C11"],
             "kind_free_text": "explicit-state breadth-first search over light-client histories (Stump.Update, Proof.Update, Proof.Undo on the real code) against the reference model and a full prover"},
            {"name": "inputs", "path": "/verif/vmc/mc/inputs.go", "serves_properties": ["C03", "C04"],
             "kind_free_text": "exhaustive enumeration of untrusted input triples over closed alphabets and of complete edit neighbourhoods of honest proofs, executed on the real verifiers; oracle from the reference forest"},
            {"name": "partial", "path": "/verif/vmc/mc/partial.go", "serves_properties": ["C09"],
             "kind_free_text": "explicit-state breadth-first search over operation histories of one partial MapPollard; canonical concrete-state dump as seen-set key; reference model oracle on every state"},
            {"name": "enc", "path": "/verif/vmc/mc/encodings.go", "serves_properties": ["C05"],
             "kind_free_text": "per-state exhaustive enumeration of accepted proof encodings applied to fresh replays of the state's history on every implementation"},
            {"name": "helper", "path": "/verif/vmc/mc/helpers.go", "serves_properties": ["C14", "C17"],
             "kind_free_text": "exhaustive enumeration of proof-helper inputs per accumulator state against the reference forest"},
            {"name": "faults", "path": "/verif/vmc/mc/faults.go", "serves_properties": ["C13"],
             "kind_free_text": "fault enumeration: every reader chunking of a closed family, every truncation point, every sink failure offset/call, on every state of the explicit-state search; map iteration order owned by the harness"},
            {"name": "cachesched", "path": "/verif/vmc/mc/schedule.go", "serves_properties": ["C15"],
             "kind_free_text": "exhaustive enumeration of block histories and memory limits for the caching-schedule tracker against the model's leaf birth/death table"},
            {"name": "sched", "path": "/verif/vmc/mc/sched_x.go", "serves_properties": ["C12"],
             "kind_free_text": "hand-written controlled scheduler (verifsync shim + map wrappers as scheduling points) with iterative preemption-bounded depth-first search over schedules; brute-force linearizability decision against sequential replicas"},
            {"name": "geom", "path": "/verif/vmc/mc/geom.go", "serves_properties": ["C16"],
             "kind_free_text": "exhaustive enumeration of the argument space of the pure position functions (bounded heights exhaustive, boundary grid to 63 rows) against the reference geometry"},
        ],
        "checks": checks,
        "not_applicable": na,
        "notes": "All checks are bounded exhaustive explorations (model checking of the implementation). `./check.sh <id> <tier>` rebuilds from /repo's working tree. Known findings and repaired defects: /verif/KNOWN_FINDINGS.txt (currently no open finding).",
    }
    json.dump(m, open('/verif/MANIFEST.json', 'w'), indent=1)
    print("wrote MANIFEST.json:", len(checks), "checks,", len(na), "not claimed")

main()
