#!/bin/bash
# Offline setup: build the checkers once (warms the Go build cache, incl. the -race build) and
# run the reference model's self-tests (hand-computed forests, row starts against math/big).
set -eu
cd /verif
./build.sh all
(cd vmc && GOFLAGS=-mod=mod GOPROXY=off GOSUMDB=off GOTOOLCHAIN=local go test -vet=off -count=1 ./ref)
echo "setup ok"
