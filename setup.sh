#!/bin/bash
# Offline setup: build the checker once so that the Go build cache is warm.
set -eu
cd /verif
./build.sh all
echo "setup ok"
