#!/bin/bash
# validates MANIFEST.json and every evidence file against the schemas
python3-vt - <<'PY'
import json,jsonschema,glob
jsonschema.validate(json.load(open('/verif/MANIFEST.json')),json.load(open('/root/.vp/MANIFEST.schema.json')))
es=json.load(open('/root/.vp/EVIDENCE.schema.json'))
for f in sorted(glob.glob('/verif/evidence/*.json')):
    jsonschema.validate(json.load(open(f)),es)
print('manifest and', len(glob.glob('/verif/evidence/*.json')), 'evidence files valid')
PY
