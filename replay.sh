#!/bin/bash
# replay.sh <replay.json>: re-executes a recorded violation twice without the explorer.
# Exit 1 = reproduced, 0 = not reproduced, 2/3 = harness error.
set -u
cd /verif
f=${1:?replay file}
prop=$(python3 -c "import json,sys; print(json.load(open(sys.argv[1]))['property'])" "$f")
bin=vmc
case "$prop" in C12|C16) bin=vmcx;; esac
./build.sh $bin >/dev/null 2>&1 || { echo "BUILD FAILED"; exit 2; }
exec ./build/$bin replay "$f"
