#!/bin/bash
# Runs the repository's pinned suite (guard off, nothing from /verif involved) in directory ${1:-/repo}
# and compares the set of passing tests with /root/.vp/BASELINE.json.
dir=${1:-/repo}
cd "$dir" || exit 2
export GOFLAGS=-mod=mod GOPROXY=off GOSUMDB=off GOTOOLCHAIN=local
go test -json -vet=off -count=1 -timeout 25m ./... > /tmp/baseline_run.$$.json 2>/dev/null
python3 - /tmp/baseline_run.$$.json <<'PY'
import json,sys
base=set(json.load(open('/root/.vp/BASELINE.json'))['stable_pass'])
passed=set(); failed=set()
for l in open(sys.argv[1]):
    try: e=json.loads(l)
    except: continue
    if e.get('Test') and e.get('Action') in('pass','fail'):
        k=e['Package']+'::'+e['Test']
        (passed if e['Action']=='pass' else failed).add(k)
missing=base-passed
print(f"baseline: {len(base)} expected, {len(passed&base)} passed, {len(missing)} missing/failed, {len(failed)} failed total")
for m in sorted(missing)[:20]: print("  MISSING", m)
sys.exit(0 if not missing else 1)
PY
rc=$?
rm -f /tmp/baseline_run.$$.json
exit $rc
