// vmc: bounded exhaustive model checking of utreexo against a reference forest.
//
//	vmc check <property> <quick|thorough>
//	vmc replay <replay.json>
package main

import (
	"encoding/json"
	"fmt"
	"os"
	"runtime/debug"

	"vmc/mc"
)

func main() {
	if len(os.Args) < 2 {
		fmt.Println("usage: vmc check <property> <tier> | vmc replay <file>")
		os.Exit(2)
	}
	debug.SetGCPercent(400) // the explorers allocate many short-lived objects
	switch os.Args[1] {
	case "check":
		prop, tier := os.Args[2], "quick"
		if len(os.Args) > 3 {
			tier = os.Args[3]
		}
		chk, ok := mc.Checks[prop]
		if !ok {
			fmt.Println("unknown property", prop)
			os.Exit(2)
		}
		ctx := mc.NewCtx(prop, tier)
		chk(ctx)
		os.Exit(mc.Finish(ctx))
	default:
		if f, ok := mc.ExtraCommands[os.Args[1]]; ok {
			os.Exit(f(os.Args[2:]))
		}
		fmt.Println("unknown command", os.Args[1])
		os.Exit(2)
	case "replay":
		b, err := os.ReadFile(os.Args[2])
		if err != nil {
			fmt.Println(err)
			os.Exit(2)
		}
		var v mc.Violation
		if err := json.Unmarshal(b, &v); err != nil {
			fmt.Println(err)
			os.Exit(2)
		}
		os.Exit(mc.Replay(v))
	}
}
