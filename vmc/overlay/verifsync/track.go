//go:build !race

package verifsync

// track: keep hold counts for unattached mutexes. Off under -race, where the extra atomics would
// add happens-before edges between critical sections and blind the race detector.
const track = true
