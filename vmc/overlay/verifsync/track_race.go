//go:build race

package verifsync

const track = false
