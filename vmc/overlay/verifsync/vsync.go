// Package verifsync: sync shim + cooperative scheduler (prototype).
package verifsync

import (
	"fmt"
	"sync"
)

type Mutex = sync.Mutex
type WaitGroup = sync.WaitGroup
type Once = sync.Once

type thread struct {
	id      int
	wake    chan struct{}
	done    bool
	blocked func() bool // nil = enabled
	panicv  interface{}
}

type Sched struct {
	threads  []*thread
	cur      *thread
	choices  []int // prefix to replay
	Trace    []int // choices taken
	Enabled  [][]int
	RunStill []bool
	yield    chan struct{}
	Deadlock bool
	Events   []string
}

var S *Sched // active scheduler (nil => real sync)

type RWMutex struct {
	real    sync.RWMutex
	writer  *thread
	readers map[*thread]int
	pending int
}

func (s *Sched) Spawn(f func()) {
	t := &thread{id: len(s.threads), wake: make(chan struct{})}
	s.threads = append(s.threads, t)
	go func() {
		<-t.wake
		defer func() {
			if r := recover(); r != nil {
				t.panicv = r
			}
			t.done = true
			s.yield <- struct{}{}
		}()
		f()
	}()
}

// Point: called by running thread; hands control to scheduler, resumes when chosen again.
func (s *Sched) Point(blocked func() bool) {
	t := s.cur
	t.blocked = blocked
	s.yield <- struct{}{}
	<-t.wake
	t.blocked = nil
}

func (s *Sched) Run(prefix []int) {
	s.yield = make(chan struct{})
	s.choices = prefix
	for step := 0; ; step++ {
		var en []int
		// canonical order: running thread first if still enabled
		if s.cur != nil && !s.cur.done && (s.cur.blocked == nil || !s.cur.blocked()) {
			en = append(en, s.cur.id)
		}
		for _, t := range s.threads {
			if t.done || (s.cur != nil && t.id == s.cur.id) {
				continue
			}
			if t.blocked == nil || !t.blocked() {
				en = append(en, t.id)
			}
		}
		if len(en) == 0 {
			for _, t := range s.threads {
				if !t.done {
					s.Deadlock = true
				}
			}
			return
		}
		c := 0
		if step < len(s.choices) {
			c = s.choices[step]
			if c >= len(en) {
				panic(fmt.Sprintf("replay divergence at step %d: choice %d of %d", step, c, len(en)))
			}
		}
		s.Trace = append(s.Trace, c)
		s.Enabled = append(s.Enabled, en)
		s.RunStill = append(s.RunStill, s.cur != nil && len(en) > 0 && en[0] == s.cur.id)
		s.cur = s.threads[en[c]]
		s.cur.wake <- struct{}{}
		<-s.yield
	}
}

func (s *Sched) Cur() int { return s.cur.id }
func (s *Sched) Panics() []interface{} {
	var out []interface{}
	for _, t := range s.threads {
		if t.panicv != nil {
			out = append(out, t.panicv)
		}
	}
	return out
}

func (m *RWMutex) Lock() {
	if S == nil {
		m.real.Lock()
		return
	}
	t := S.cur
	m.pending++
	S.Point(func() bool { return m.writer != nil || len(m.readers) > 0 })
	m.pending--
	m.writer = t
}
func (m *RWMutex) Unlock() {
	if S == nil {
		m.real.Unlock()
		return
	}
	m.writer = nil
	S.Point(nil)
}
func (m *RWMutex) RLock() {
	if S == nil {
		m.real.RLock()
		return
	}
	t := S.cur
	S.Point(func() bool { return m.writer != nil || m.pending > 0 })
	if m.readers == nil {
		m.readers = map[*thread]int{}
	}
	m.readers[t]++
}
func (m *RWMutex) RUnlock() {
	if S == nil {
		m.real.RUnlock()
		return
	}
	t := S.cur
	m.readers[t]--
	if m.readers[t] == 0 {
		delete(m.readers, t)
	}
	S.Point(nil)
}

// HeldW/HeldR for lock discipline checks.
func (m *RWMutex) HeldW() bool { return S != nil && m.writer == S.cur }
func (m *RWMutex) HeldR() bool { return S != nil && (m.writer == S.cur || m.readers[S.cur] > 0) }
