// Package verifsync is NOT part of utreexo. It is a stand-in for package sync that the vmcx build
// of /verif substitutes for the "sync" import of mappollard.go (go build -overlay). Its RWMutex
// behaves exactly like sync.RWMutex until a cooperative scheduler is attached to it; then every
// lock operation is a scheduling point of that scheduler, which runs one harness thread at a time.
package verifsync

import (
	"fmt"
	"sync"
	"sync/atomic"
)

type Mutex = sync.Mutex
type WaitGroup = sync.WaitGroup
type Once = sync.Once

type Thread struct {
	ID      int
	wake    chan struct{}
	done    bool
	blocked func() bool // nil = enabled
	Panic   interface{}
}

// Sched is a cooperative scheduler for one execution. Threads are goroutines that run only
// while they hold the baton; Point hands it back.
type Sched struct {
	threads  []*Thread
	cur      *Thread
	choices  []int
	Trace    []int   // choice taken at every step
	Enabled  [][]int // enabled thread ids at every step, canonical order (running thread first)
	RunStill []bool  // whether the previously running thread was still enabled at the step
	Ran      []int   // id of the thread chosen at every step
	yield    chan struct{}
	Deadlock bool
	Diverged string
	Steps    int
	MaxSteps int
	Overrun  bool
}

func (s *Sched) Spawn(f func()) *Thread {
	t := &Thread{ID: len(s.threads), wake: make(chan struct{})}
	s.threads = append(s.threads, t)
	go func() {
		<-t.wake
		defer func() {
			if r := recover(); r != nil {
				t.Panic = r
			}
			t.done = true
			s.yield <- struct{}{}
		}()
		f()
	}()
	return t
}

// Point is called by the running thread: it gives the baton back and resumes when chosen again.
// blocked (may be nil) tells the scheduler whether the thread can currently proceed.
func (s *Sched) Point(blocked func() bool) {
	t := s.cur
	t.blocked = blocked
	s.yield <- struct{}{}
	<-t.wake
	t.blocked = nil
}

// Cur is the thread currently holding the baton.
func (s *Sched) Cur() *Thread { return s.cur }

// Step is the number of scheduling decisions taken so far (a logical clock for the harness).
func (s *Sched) Step() int { return len(s.Trace) }

// Run executes the threads to completion following prefix, then always choice 0.
func (s *Sched) Run(prefix []int) {
	s.yield = make(chan struct{})
	s.choices = prefix
	for step := 0; ; step++ {
		var en []int
		if s.cur != nil && !s.cur.done && (s.cur.blocked == nil || !s.cur.blocked()) {
			en = append(en, s.cur.ID)
		}
		for _, t := range s.threads {
			if t.done || (s.cur != nil && t.ID == s.cur.ID) {
				continue
			}
			if t.blocked == nil || !t.blocked() {
				en = append(en, t.ID)
			}
		}
		if len(en) == 0 {
			for _, t := range s.threads {
				if !t.done {
					s.Deadlock = true
				}
			}
			return
		}
		if s.MaxSteps > 0 && step >= s.MaxSteps {
			s.Overrun = true
			return
		}
		c := 0
		if step < len(s.choices) {
			c = s.choices[step]
			if c >= len(en) {
				s.Diverged = fmt.Sprintf("replay divergence at step %d: choice %d of %d enabled", step, c, len(en))
				return
			}
		}
		s.Trace = append(s.Trace, c)
		s.Enabled = append(s.Enabled, en)
		s.RunStill = append(s.RunStill, s.cur != nil && en[0] == s.cur.ID)
		s.cur = s.threads[en[c]]
		s.Ran = append(s.Ran, s.cur.ID)
		s.cur.wake <- struct{}{}
		<-s.yield
	}
}

func (s *Sched) Threads() []*Thread { return s.threads }

// RWMutex mirrors sync.RWMutex, including writer preference: a waiting Lock blocks later RLocks,
// so recursive read locking shows up as a deadlock.
type RWMutex struct {
	real    sync.RWMutex
	s       *Sched
	writer  *Thread
	readers map[*Thread]int
	pending int // writers waiting in Lock
	// unattached bookkeeping (see track): how often the real mutex is read-/write-held, so that
	// unlocking a mutex that is not held is a recoverable panic the harness can report instead of
	// the runtime's unrecoverable "fatal error: sync: Unlock of unlocked RWMutex".
	rheld, wheld int32
}

// Attach makes the mutex a scheduling seam of s (nil detaches).
func (m *RWMutex) Attach(s *Sched) { m.s = s }

func (m *RWMutex) Lock() {
	if m.s == nil {
		m.real.Lock()
		if track {
			atomic.AddInt32(&m.wheld, 1)
		}
		return
	}
	t := m.s.cur
	m.pending++
	m.s.Point(func() bool { return m.writer != nil || len(m.readers) > 0 })
	m.pending--
	m.writer = t
}

func (m *RWMutex) Unlock() {
	if m.s == nil {
		if track && atomic.AddInt32(&m.wheld, -1) < 0 {
			atomic.AddInt32(&m.wheld, 1)
			panic("verifsync: Unlock of an unlocked RWMutex (was the lock replaced while it was held?)")
		}
		m.real.Unlock()
		return
	}
	if m.writer != m.s.cur {
		panic("verifsync: Unlock of an RWMutex not write-locked by this thread")
	}
	m.writer = nil
	m.s.Point(nil)
}

func (m *RWMutex) RLock() {
	if m.s == nil {
		m.real.RLock()
		if track {
			atomic.AddInt32(&m.rheld, 1)
		}
		return
	}
	t := m.s.cur
	m.s.Point(func() bool { return m.writer != nil || m.pending > 0 })
	if m.readers == nil {
		m.readers = map[*Thread]int{}
	}
	m.readers[t]++
}

func (m *RWMutex) RUnlock() {
	if m.s == nil {
		if track && atomic.AddInt32(&m.rheld, -1) < 0 {
			atomic.AddInt32(&m.rheld, 1)
			panic("verifsync: RUnlock of an unlocked RWMutex (was the lock replaced while it was held?)")
		}
		m.real.RUnlock()
		return
	}
	t := m.s.cur
	if m.readers[t] == 0 {
		panic("verifsync: RUnlock of an RWMutex not read-locked by this thread")
	}
	m.readers[t]--
	if m.readers[t] == 0 {
		delete(m.readers, t)
	}
	m.s.Point(nil)
}

// HeldW / HeldR: does the running thread hold the write lock / at least the read lock?
func (m *RWMutex) HeldW() bool { return m.s != nil && m.writer == m.s.cur }
func (m *RWMutex) HeldR() bool {
	return m.s != nil && (m.writer == m.s.cur || m.readers[m.s.cur] > 0)
}
