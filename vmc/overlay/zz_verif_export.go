//go:build verif

// This file is NOT part of utreexo. It is added to package utreexo at build time through
// `go build -overlay` by /verif/build.sh (only for the vmcx binary, build tag verif) and gives
// the checker read-only access to two unexported things.
package utreexo

// VerifTranslatePos exposes translatePos (C16).
func VerifTranslatePos(pos uint64, from, to uint8) uint64 { return translatePos(pos, from, to) }

// VerifLock exposes the map forest's lock for lock-discipline checks (C12). In the vmcx build
// mappollard.go imports the verifsync shim instead of sync, so rwLock has these methods.
func (m *MapPollard) VerifLock() interface {
	HeldW() bool
	HeldR() bool
} {
	return m.rwLock
}
