//go:build verif

// This file is NOT part of utreexo. It is added to package utreexo at build time through
// `go build -overlay` by /verif/build.sh (only for the vmcx binary, build tag verif) and gives
// the checker read-only access to two unexported things.
package utreexo

import "github.com/utreexo/utreexo/verifsync"

// VerifTranslatePos exposes translatePos (C16).
func VerifTranslatePos(pos uint64, from, to uint8) uint64 { return translatePos(pos, from, to) }

// VerifLock exposes the map forest's lock so that a harness can attach its scheduler to it and
// check the lock discipline (C12). In the vmcx build mappollard.go imports the verifsync shim
// instead of sync, so rwLock is a *verifsync.RWMutex.
func (m *MapPollard) VerifLock() *verifsync.RWMutex { return m.rwLock }
