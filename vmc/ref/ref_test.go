package ref

import (
	"math/big"
	"testing"
)

// Hand-computed facts about small forests (from the property text, README-style drawings and
// the swapless-deletion rule), independent of utreexo's code.
func TestHandComputedForests(t *testing.T) {
	l := func(i int) Hash { return LeafHash(i) }
	// three leaves: trees [0,1] and [2]
	s := State{Alive: []bool{true, true, true}}
	L := APILayout(s)
	if L.R != 2 || len(L.Roots) != 2 || L.Roots[0] != HashPair(l(0), l(1)) || L.Roots[1] != l(2) {
		t.Fatalf("3 leaves: roots wrong")
	}
	if L.LeafPos[0] != 0 || L.LeafPos[1] != 1 || L.LeafPos[2] != 2 || L.RootPos[0] != 4 || L.RootPos[1] != 2 {
		t.Fatalf("3 leaves: positions wrong %v %v", L.LeafPos, L.RootPos)
	}
	// four leaves, leaf 0 deleted: leaf 1 stands in for node 4; root = H(l1, H(l2,l3))
	s = State{Alive: []bool{false, true, true, true}}
	L = APILayout(s)
	n23 := HashPair(l(2), l(3))
	if len(L.Roots) != 1 || L.Roots[0] != HashPair(l(1), n23) {
		t.Fatalf("4 leaves minus leaf 0: root wrong")
	}
	if L.LeafPos[1] != 4 || L.LeafPos[2] != 2 || L.LeafPos[3] != 3 || L.At[5] != n23 || L.At[6] != L.Roots[0] {
		t.Fatalf("4 leaves minus leaf 0: layout wrong %v", L.LeafPos)
	}
	if _, ok := L.At[0]; ok {
		t.Fatalf("vacated position 0 must hold nothing")
	}
	p := L.Proof([]int{1})
	if len(p.Targets) != 1 || p.Targets[0] != 4 || len(p.Proof) != 1 || p.Proof[0] != n23 {
		t.Fatalf("proof of leaf 1 wrong: %v", p)
	}
	// five leaves, leaves 0..3 deleted: a zombie (all-zero) root and leaf 4
	s = State{Alive: []bool{false, false, false, false, true}}
	L = APILayout(s)
	if len(L.Roots) != 2 || L.Roots[0] != Zero || L.Roots[1] != l(4) || L.RootPos[0] != 12 || L.RootPos[1] != 4 {
		t.Fatalf("zombie root wrong: %v %v", L.Roots, L.RootPos)
	}
	// adding three leaves to it consumes the zombie root: 8 leaves, root = H(l4,l5) stands in on the
	// right half, hashed with nothing on the left => root of the 8-tree is H(H(l4,l5),H(l6,l7))
	s = s.Apply(nil, 3)
	L = APILayout(s)
	want := HashPair(HashPair(l(4), l(5)), HashPair(l(6), l(7)))
	if len(L.Roots) != 1 || L.Roots[0] != want || L.LeafPos[4] != 8 || L.LeafPos[7] != 11 {
		t.Fatalf("overwritten zombie root wrong: %v", L.LeafPos)
	}
	if d := DestroyedRoots(State{Alive: []bool{false, false, false, false, true}}, nil, 3); len(d) != 1 || d[0] != 12 {
		t.Fatalf("destroyed roots: %v", d)
	}
	// two proofs in different trees: 6 leaves, targets 0 and 5
	s = State{Alive: []bool{true, true, true, true, true, true}}
	L = APILayout(s)
	p = L.Proof([]int{5, 0})
	if p.Targets[0] != 5 || p.Targets[1] != 0 || len(p.Proof) != 3 || p.Proof[0] != l(1) || p.Proof[1] != l(4) || p.Proof[2] != HashPair(l(2), l(3)) {
		t.Fatalf("two-tree proof wrong: %v", p.Targets)
	}
}

func TestRowStartAgainstBig(t *testing.T) {
	for R := uint(0); R <= 63; R++ {
		for r := uint(0); r <= R; r++ {
			a := new(big.Int).Lsh(big.NewInt(1), R+1)
			b := new(big.Int).Lsh(big.NewInt(1), R+1-r)
			a.Sub(a, b)
			if !a.IsUint64() || a.Uint64() != RowStart(uint8(r), uint8(R)) {
				t.Fatalf("RowStart(%d,%d)", r, R)
			}
		}
	}
}
