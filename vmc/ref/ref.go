// Package ref is the definitional reference model of a Utreexo forest used as the oracle by
// every check. It is written from the wording of the properties (C01/C02) and deliberately
// shares no position arithmetic with utreexo's utils.go:
//
//   - a forest is (Base, N, alive): Base pre-existing leaves summarised as opaque perfect trees
//     (binary digits of Base), N leaves added since, each new leaf alive or dead;
//   - the trees are those of the binary digits of Base+N, highest first; a dead slot contributes
//     nothing, a node with one empty child *is* its other child (contraction), otherwise
//     hash = SHA-512/256(left || right); a tree without survivors has the all-zero root;
//   - in a forest of R rows, row r holds consecutive positions starting at 2^(R+1) - 2^(R+1-r);
//     node (r,k) has children (r-1,2k) and (r-1,2k+1); the contracted tree is laid out top-down
//     from each root position.
package ref

import (
	"crypto/sha256"
	"crypto/sha512"
	"fmt"
	"sort"
	"strings"

	u "github.com/utreexo/utreexo"
)

type Hash = u.Hash

var Zero Hash

// LeafHash is the hash of the leaf inserted in slot i: distinct, non-zero.
func LeafHash(i int) Hash { return sha256.Sum256([]byte(fmt.Sprintf("leaf-%d", i))) }

// OpaqueHash is the synthetic root hash of the idx-th pre-existing (opaque) tree.
func OpaqueHash(idx int) Hash { return sha256.Sum256([]byte(fmt.Sprintf("opaque-root-%d", idx))) }

// FreshHash is a hash that is never a node of any forest.
func FreshHash(i int) Hash { return sha256.Sum256([]byte(fmt.Sprintf("fresh-%d", i))) }

func HashPair(l, r Hash) Hash {
	h := sha512.New512_256()
	h.Write(l[:])
	h.Write(r[:])
	var out Hash
	copy(out[:], h.Sum(nil))
	return out
}

// ---------- geometry ----------

// RowStart is the first position of row r in a forest of R rows (wrapping arithmetic so that
// R = 63 works: 2^64 is 0).
func RowStart(r, R uint8) uint64 {
	var top uint64
	if R+1 < 64 {
		top = uint64(1) << (R + 1)
	}
	var sub uint64
	if R+1-r < 64 {
		sub = uint64(1) << (R + 1 - r)
	}
	return top - sub
}

func PosOf(r uint8, off uint64, R uint8) uint64 { return RowStart(r, R) + off }

// RowsFor is the number of rows of the smallest forest holding n leaves.
func RowsFor(n uint64) uint8 {
	var r uint8
	for r < 64 && (uint64(1)<<r) < n {
		r++
	}
	return r
}

// RowOffOf inverts PosOf by search (independent of DetectRow). ok=false if pos is not a
// position of an R-row forest.
func RowOffOf(pos uint64, R uint8) (r uint8, off uint64, ok bool) {
	for r = 0; r <= R; r++ {
		start := RowStart(r, R)
		width := uint64(1) << (R - r)
		if pos >= start && pos-start < width {
			return r, pos - start, true
		}
	}
	return 0, 0, false
}

// Translate maps a position between forests of different heights preserving (row, offset).
func Translate(pos uint64, from, to uint8) (uint64, bool) {
	r, off, ok := RowOffOf(pos, from)
	if !ok || r > to {
		return 0, false
	}
	if off >= uint64(1)<<(to-r) {
		return 0, false
	}
	return PosOf(r, off, to), true
}

// ---------- model state ----------

// State is the abstract state of an accumulator: Base opaque leaves, then len(Alive) added
// leaves, slot Base+i alive iff Alive[i].
type State struct {
	Base  uint64
	Alive []bool
}

func (s State) N() int        { return len(s.Alive) }
func (s State) Total() uint64 { return s.Base + uint64(len(s.Alive)) }

func (s State) Key() string {
	var sb strings.Builder
	if s.Base != 0 {
		fmt.Fprintf(&sb, "%d+", s.Base)
	}
	for _, a := range s.Alive {
		if a {
			sb.WriteByte('1')
		} else {
			sb.WriteByte('0')
		}
	}
	return sb.String()
}

func (s State) Clone() State {
	return State{Base: s.Base, Alive: append([]bool(nil), s.Alive...)}
}

// Live returns the live slot indexes (0-based among added leaves).
func (s State) Live() []int {
	var out []int
	for i, a := range s.Alive {
		if a {
			out = append(out, i)
		}
	}
	return out
}

func (s State) NumLive() int { return len(s.Live()) }

// Apply returns the state after deleting dels and appending adds new live leaves.
func (s State) Apply(dels []int, adds int) State {
	ns := s.Clone()
	for _, d := range dels {
		ns.Alive[d] = false
	}
	for i := 0; i < adds; i++ {
		ns.Alive = append(ns.Alive, true)
	}
	return ns
}

// Truncate returns the state with only the first n added leaves (used by undo).
func (s State) Truncate(n int) State {
	ns := s.Clone()
	ns.Alive = ns.Alive[:n]
	return ns
}

// ---------- contracted trees ----------

type node struct {
	hash   Hash
	l, r   *node
	slot   int // added-leaf index if leaf, -1 otherwise
	opaque int // opaque tree index if opaque, -1 otherwise
	a      uint64
	h      uint8 // slot range [a, a+2^h) of the *contracted* node
}

type treeSpec struct {
	a uint64
	h uint8
}

func treesOf(total uint64) []treeSpec {
	var out []treeSpec
	var a uint64
	for h := 63; h >= 0; h-- {
		if total&(uint64(1)<<uint(h)) != 0 {
			out = append(out, treeSpec{a, uint8(h)})
			a += uint64(1) << uint(h)
		}
	}
	return out
}

type builder struct {
	s      State
	opaque map[treeSpec]int
}

func newBuilder(s State) *builder {
	b := &builder{s: s, opaque: map[treeSpec]int{}}
	for i, t := range treesOf(s.Base) {
		b.opaque[t] = i
	}
	return b
}

// build returns the contracted node for the slot range [a, a+2^h), or nil if nothing survives.
func (b *builder) build(a uint64, h uint8) *node {
	if idx, ok := b.opaque[treeSpec{a, h}]; ok {
		return &node{hash: OpaqueHash(idx), slot: -1, opaque: idx, a: a, h: h}
	}
	if h == 0 {
		if a < b.s.Base {
			panic("ref: slot inside an opaque tree")
		}
		i := int(a - b.s.Base)
		if !b.s.Alive[i] {
			return nil
		}
		return &node{hash: LeafHash(i), slot: i, opaque: -1, a: a, h: 0}
	}
	l := b.build(a, h-1)
	r := b.build(a+(uint64(1)<<(h-1)), h-1)
	if l == nil {
		return r
	}
	if r == nil {
		return l
	}
	return &node{hash: HashPair(l.hash, r.hash), l: l, r: r, slot: -1, opaque: -1, a: a, h: h}
}

// SubtreeHash is the hash of the contracted node over slot range [a, a+2^h) in state s, or the
// zero hash if nothing survives there.
func SubtreeHash(s State, a uint64, h uint8) Hash {
	n := newBuilder(s).build(a, h)
	if n == nil {
		return Zero
	}
	return n.hash
}

// Layout is a forest laid out in R-row coordinates.
type Layout struct {
	S       State
	R       uint8
	Roots   []Hash   // highest tree first; zero for a tree without survivors
	RootPos []uint64 // same order
	RootRow []uint8
	At      map[uint64]Hash      // position -> hash of the node sitting there (zero roots included)
	LeafPos map[int]uint64       // live added-leaf index -> position
	Parent  map[uint64]uint64    // occupied non-root position -> parent position
	IsLeaf  map[uint64]int       // position -> added-leaf index
	Opaque  map[uint64]int       // position -> opaque tree index (node is an opaque subtree)
	TreeOf  map[uint64]int       // occupied position -> tree index (0 = highest)
	Range   map[uint64][2]uint64 // occupied position -> (a,h) slot range of the contracted node
	Row     map[uint64]uint8
}

// LayoutOf lays the forest of s out in a forest of R rows. R must be >= RowsFor(total).
func LayoutOf(s State, R uint8) *Layout {
	L := &Layout{S: s, R: R, At: map[uint64]Hash{}, LeafPos: map[int]uint64{}, Parent: map[uint64]uint64{},
		IsLeaf: map[uint64]int{}, Opaque: map[uint64]int{}, TreeOf: map[uint64]int{}, Range: map[uint64][2]uint64{}, Row: map[uint64]uint8{}}
	b := newBuilder(s)
	for ti, t := range treesOf(s.Total()) {
		n := b.build(t.a, t.h)
		rp := PosOf(t.h, t.a>>t.h, R)
		L.RootPos = append(L.RootPos, rp)
		L.RootRow = append(L.RootRow, t.h)
		L.Row[rp] = t.h
		if n == nil {
			L.Roots = append(L.Roots, Zero)
			L.At[rp] = Zero
			L.TreeOf[rp] = ti
			L.Range[rp] = [2]uint64{t.a, uint64(t.h)}
			continue
		}
		L.Roots = append(L.Roots, n.hash)
		var assign func(n *node, row uint8, off uint64)
		assign = func(n *node, row uint8, off uint64) {
			p := PosOf(row, off, R)
			L.At[p] = n.hash
			L.TreeOf[p] = ti
			L.Range[p] = [2]uint64{n.a, uint64(n.h)}
			L.Row[p] = row
			if n.slot >= 0 {
				L.LeafPos[n.slot] = p
				L.IsLeaf[p] = n.slot
				return
			}
			if n.opaque >= 0 {
				L.Opaque[p] = n.opaque
				return
			}
			lp, rp2 := PosOf(row-1, off*2, R), PosOf(row-1, off*2+1, R)
			L.Parent[lp] = p
			L.Parent[rp2] = p
			assign(n.l, row-1, off*2)
			assign(n.r, row-1, off*2+1)
		}
		assign(n, t.h, t.a>>t.h)
	}
	return L
}

// APILayout lays s out in the coordinates the public API uses: RowsFor(total) rows.
func APILayout(s State) *Layout { return LayoutOf(s, RowsFor(s.Total())) }

// PathSets returns, for the given target positions, the computable set (targets and all their
// ancestors up to the roots) and the needed set (siblings of computable non-root positions that
// are not computable), both ascending.
func (L *Layout) PathSets(targets []uint64) (needed, computable []uint64) {
	comp := map[uint64]bool{}
	for _, t := range targets {
		p := t
		for {
			comp[p] = true
			pp, ok := L.Parent[p]
			if !ok {
				break
			}
			p = pp
		}
	}
	need := map[uint64]bool{}
	for c := range comp {
		if _, ok := L.Parent[c]; !ok {
			continue
		}
		if s := c ^ 1; !comp[s] {
			need[s] = true
		}
	}
	for p := range need {
		needed = append(needed, p)
	}
	for p := range comp {
		computable = append(computable, p)
	}
	sort.Slice(needed, func(i, j int) bool { return needed[i] < needed[j] })
	sort.Slice(computable, func(i, j int) bool { return computable[i] < computable[j] })
	return
}

// ProofPositions is the canonical needed set for the targets.
func (L *Layout) ProofPositions(targets []uint64) []uint64 {
	n, _ := L.PathSets(targets)
	return n
}

// Targets returns the positions of the given live slots in request order.
func (L *Layout) Targets(slots []int) []uint64 {
	out := make([]uint64, len(slots))
	for i, s := range slots {
		p, ok := L.LeafPos[s]
		if !ok {
			panic(fmt.Sprintf("ref: slot %d is not live in %s", s, L.S.Key()))
		}
		out[i] = p
	}
	return out
}

// Proof is the canonical proof of the given live slots, targets in request order.
func (L *Layout) Proof(slots []int) u.Proof {
	var pr u.Proof
	pr.Targets = L.Targets(slots)
	for _, p := range L.ProofPositions(pr.Targets) {
		pr.Proof = append(pr.Proof, L.At[p])
	}
	return pr
}

// TreesOfTargets returns the sorted distinct tree indexes containing the target positions.
func (L *Layout) TreesOfTargets(targets []uint64) []int {
	seen := map[int]bool{}
	for _, t := range targets {
		seen[L.TreeOf[t]] = true
	}
	var out []int
	for t := range seen {
		out = append(out, t)
	}
	sort.Ints(out)
	return out
}

// Hashes returns the leaf hashes of the slots in order.
func Hashes(slots []int) []Hash {
	out := make([]Hash, len(slots))
	for i, s := range slots {
		out[i] = LeafHash(s)
	}
	return out
}

// ---------- derived oracles for update data (C11) ----------

// DestroyedRoots simulates the binary carry of `adds` additions over the trees of s after the
// deletions `dels` and returns, in order of destruction and in the post-block geometry (rows of
// total+adds), the positions of the empty roots that the additions consume.
func DestroyedRoots(s State, dels []int, adds int) []uint64 {
	after := s.Apply(dels, 0)
	type tr struct {
		a     uint64
		h     uint8
		empty bool
	}
	var trees []tr
	b := newBuilder(after)
	for _, t := range treesOf(after.Total()) {
		trees = append(trees, tr{t.a, t.h, b.build(t.a, t.h) == nil})
	}
	Ra := RowsFor(s.Total() + uint64(adds))
	var out []uint64
	n := s.Total()
	for i := 0; i < adds; i++ {
		h := uint8(0)
		a := n
		for (n>>h)&1 == 1 {
			t := trees[len(trees)-1]
			trees = trees[:len(trees)-1]
			if t.empty {
				out = append(out, PosOf(t.h, t.a>>t.h, Ra))
			}
			a = t.a
			h++
		}
		trees = append(trees, tr{a, h, false})
		n++
	}
	return out
}

// DelUpdates returns, sorted by position, every pre-block position on a path from a deleted
// target to its root (targets and roots included) with the hash its subtree has once the
// deletions are applied (zero if nothing survives).
func DelUpdates(s State, dels []int) (pos []uint64, hashes []Hash) {
	LB := APILayout(s)
	after := s.Apply(dels, 0)
	P := map[uint64]bool{}
	for _, d := range dels {
		p := LB.LeafPos[d]
		for {
			P[p] = true
			pp, ok := LB.Parent[p]
			if !ok {
				break
			}
			p = pp
		}
	}
	for p := range P {
		pos = append(pos, p)
	}
	sort.Slice(pos, func(i, j int) bool { return pos[i] < pos[j] })
	for _, p := range pos {
		rg := LB.Range[p]
		hashes = append(hashes, SubtreeHash(after, rg[0], uint8(rg[1])))
	}
	return
}

// AddUpdates returns, sorted by position and duplicate-free, every added leaf and both children
// of every node created by the additions, at final positions in the post-block layout.
func AddUpdates(s State, dels []int, adds int) (pos []uint64, hashes []Hash) {
	ns := s.Apply(dels, adds)
	LA := APILayout(ns)
	want := map[uint64]Hash{}
	for i := 0; i < adds; i++ {
		slot := s.N() + i
		p := LA.LeafPos[slot]
		want[p] = LA.At[p]
		for {
			pp, ok := LA.Parent[p]
			if !ok {
				break
			}
			want[p] = LA.At[p]
			want[p^1] = LA.At[p^1]
			p = pp
		}
	}
	for p := range want {
		pos = append(pos, p)
	}
	sort.Slice(pos, func(i, j int) bool { return pos[i] < pos[j] })
	for _, p := range pos {
		hashes = append(hashes, want[p])
	}
	return
}
