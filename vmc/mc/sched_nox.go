//go:build !verif

package mc

import "fmt"

func init() {
	Checks["C12"] = func(c *Ctx) {
		fmt.Println("C12 needs the overlay build (vmcx): the scheduler seam is the sync shim substituted into mappollard.go")
		c.Cov.NotExhaustive("not available in the plain build")
	}
}
