package mc

import (
	"encoding/json"
	"fmt"
)

// Check is a property check: it explores and fills ctx.Col / ctx.Cov.
type Check func(c *Ctx)

var Checks = map[string]Check{}

// RunCase re-executes one recorded case and returns the violations it produces.
var Engines = map[string]func(prop string, payload json.RawMessage) ([]Violation, error){}

func allTR() []uint8 {
	out := make([]uint8, 64)
	for i := range out {
		out[i] = uint8(i)
	}
	return out
}

// stdInsts is the instance set of the forward families.
func stdInsts(trs []uint8, partialModes []string) []InstCfg {
	out := []InstCfg{{Kind: "stump"}, {Kind: "pollard"}}
	for _, tr := range trs {
		out = append(out, InstCfg{Kind: "map", Full: true, TR: tr})
	}
	for _, mode := range partialModes {
		for _, tr := range trs {
			out = append(out, InstCfg{Kind: "map", Full: false, TR: tr, Mode: mode})
		}
	}
	return out
}

func init() {
	Engines["hist"] = func(prop string, payload json.RawMessage) ([]Violation, error) {
		var p histPayload
		if err := json.Unmarshal(payload, &p); err != nil {
			return nil, err
		}
		f := p.Fam
		x := NewExec(prop, func() Case { return Case{Engine: "hist", Payload: payload} })
		insts, md, ok := f.run(x, p.Hist)
		if ok {
			report := f.Or.OnlyAfter == "" || (f.Or.OnlyAfter == "undo" && md.hasUndo) || (f.Or.OnlyAfter == "roundtrip" && md.hasRT)
			f.observe(x, insts, md, report)
		}
		x.CheckHeld()
		return x.Viol, nil
	}

	Checks["C01"] = func(c *Ctx) {
		trs := pick(c, []uint8{0, 1, 2, 3, 4, 5, 62, 63}, allTR())
		fam := &HistFamily{
			Nmax:  pick(c, 9, 10),
			Insts: stdInsts(trs, []string{"all", "even", "none"}),
			Or:    HistOracle{Roots: true, Prop: "C01"},
		}
		c.Cov.Rule = "explicit-state BFS over block histories (every deletion subset of the live leaves x every addition count with N<=Nmax), each transition replayed on fresh Stump/Pollard/MapPollard instances and compared with the reference forest; non-trivial = distinct concrete state with at least one dead leaf"
		c.Cov.Bound["Nmax"] = fam.Nmax
		c.Cov.Bound["TotalRows"] = fmt.Sprint(trs)
		c.Cov.Bound["instances"] = len(fam.Insts)
		BFS(c, fam, 0)
		if c.Thorough() {
			tallFamily(c, "C01")
		}
	}
}
