package mc

import (
	"encoding/json"
	"fmt"
)

// Check is a property check: it explores and fills ctx.Col / ctx.Cov.
type Check func(c *Ctx)

var Checks = map[string]Check{}

// ExtraCommands are additional sub-commands of the binary (e.g. the free-running race pass).
var ExtraCommands = map[string]func(args []string) int{}

var haveSched = false

// RunCase re-executes one recorded case and returns the violations it produces.
var Engines = map[string]func(prop string, payload json.RawMessage) ([]Violation, error){}

// offsetBases are the leaf counts the offset-start families begin at: around 2^5, 2^31, 2^32, 2^33
// (counts whose low 32 bits are all ones / all zeros after a few additions), 2^62 and just below 2^63.
func offsetBases(thorough bool) []uint64 {
	if !thorough {
		return []uint64{31, 32, 1<<31 + 1, 1<<32 - 1, 1<<33 - 2, 1<<62 + 1, 1<<63 - 4}
	}
	return []uint64{31, 32, 33, 1<<31 - 1, 1 << 31, 1<<31 + 1, 1<<32 - 2, 1<<32 - 1, 1 << 32, 1<<32 + 1, 1<<33 - 2, 1<<33 - 1, 3<<32 - 1, 1<<62 - 1, 1 << 62, 1<<62 + 1, 1<<63 - 4}
}

func allTR() []uint8 {
	out := make([]uint8, 64)
	for i := range out {
		out[i] = uint8(i)
	}
	return out
}

// stdInsts is the instance set of the forward families.
func stdInsts(trs []uint8, partialModes []string) []InstCfg {
	out := []InstCfg{{Kind: "stump"}, {Kind: "pollard"}}
	for _, tr := range trs {
		out = append(out, InstCfg{Kind: "map", Full: true, TR: tr})
	}
	for _, mode := range partialModes {
		for _, tr := range trs {
			out = append(out, InstCfg{Kind: "map", Full: false, TR: tr, Mode: mode})
		}
	}
	return out
}

// flagOffInsts: full forests whose leaves are all added with Remember == false (the flag is
// documented as irrelevant for a full forest; after a restore it must still be).
func flagOffInsts() []InstCfg {
	return []InstCfg{{Kind: "pollard", FlagOff: true}, {Kind: "map", Full: true, TR: 0, FlagOff: true}}
}

// revInsts: instances that receive their block data in another accepted shape: every target list in
// descending order (InstCfg.Rev), every proof with a trailing unused hash (InstCfg.Junk), or both.
func revInsts(withStump bool) []InstCfg {
	out := []InstCfg{{Kind: "pollard", Rev: true}, {Kind: "map", Full: true, TR: 0, Rev: true}, {Kind: "map", Full: false, TR: 0, Mode: "all", Rev: true}, {Kind: "map", Full: false, TR: 63, Mode: "none", Rev: true}}
	if withStump {
		out = append([]InstCfg{{Kind: "stump", Rev: true}}, out...)
	}
	// the same instances with one trailing unused proof hash in every proof, in both orders
	for _, c := range append([]InstCfg(nil), out...) {
		j := c
		j.Junk = true
		out = append(out, j)
		j.Rev = false
		out = append(out, j)
	}
	return out
}

func init() {
	Engines["hist"] = func(prop string, payload json.RawMessage) ([]Violation, error) {
		var p histPayload
		if err := json.Unmarshal(payload, &p); err != nil {
			return nil, err
		}
		f := p.Fam
		x := NewExec(prop, func() Case { return Case{Engine: "hist", Payload: payload} })
		insts, md, ok := f.run(x, p.Hist)
		if ok {
			report := f.Or.OnlyAfter == "" || (f.Or.OnlyAfter == "undo" && md.hasUndo) || (f.Or.OnlyAfter == "roundtrip" && md.hasRT)
			f.observe(x, insts, md, report)
		}
		x.CheckHeld()
		return x.Viol, nil
	}

	Checks["C01"] = func(c *Ctx) {
		trs := pick(c, []uint8{0, 1, 2, 3, 4, 5, 62, 63}, allTR())
		fam := &HistFamily{
			Nmax:  pick(c, 9, 10),
			Insts: append(stdInsts(trs, []string{"all", "even", "none"}), flagOffInsts()...),
			Or:    HistOracle{Roots: true, Prop: "C01"},
		}
		c.Cov.Rule = "explicit-state BFS over block histories (every deletion subset of the live leaves x every addition count with N<=Nmax), each transition replayed on fresh Stump/Pollard/MapPollard instances and compared with the reference forest; non-trivial = distinct concrete state with at least one dead leaf"
		c.Cov.Bound["Nmax"] = fam.Nmax
		c.Cov.Bound["TotalRows"] = fmt.Sprint(trs)
		c.Cov.Bound["instances"] = len(fam.Insts)
		BFS(c, fam, 0)
		// the partial-forest family (every Remember subset, Verify(remember), Ingest, Prune, Undo,
		// from-roots) under the C01 collector: roots and leaf count after every transition
		np := pick(c, 4, 5)
		c.Cov.Bound["partial_family.Nmax"] = np
		for _, tr := range pick(c, []uint8{0, 63}, []uint8{0, 2, 3, 63}) {
			if c.Expired() {
				break
			}
			BFS(c, &PartialFamily{Nmax: np, TR: tr, UndoBud: 1, FRBud: 1, Junk: true, SetLimit: 2, Prop: "C09", Collect: "C01"}, 0)
		}
		// offset-start family: Stump and partial MapPollard started from the bare roots of large
		// accumulators (rows 5..63), then a few added leaves are added, remembered, deleted, undone
		ob := offsetBases(c.Thorough())
		c.Cov.Bound["offset_start.bases"] = fmt.Sprint(ob)
		for _, b := range ob {
			if c.Expired() {
				break
			}
			BFS(c, &LightFamily{Nmax: pick(c, 4, 5), Prop: "C07", RemMode: "none", Base: b, Collect: "C01"}, 0)
			BFS(c, &PartialFamily{Nmax: pick(c, 3, 4), TR: 63, UndoBud: 1, SetLimit: 2, Prop: "C09", Base: b, Collect: "C01"}, 0)
		}
		// forests that went through one serialize/restore and then evolved further
		nrt := pick(c, 5, 6)
		c.Cov.Bound["restored_forests"] = fmt.Sprintf("Nmax=%d, one serialize/restore transition; Pollard, MapPollard full / partial", nrt)
		if !c.Expired() {
			BFS(c, &HistFamily{Nmax: nrt, Insts: append(stdInsts([]uint8{0, 63}, []string{"all", "even"})[1:], flagOffInsts()...), Or: HistOracle{Roots: true, Prop: "C01", OnlyAfter: "roundtrip"}, RTBud: 1}, 0)
		}
		queriedFamily(c, HistOracle{Roots: true, Prop: "C01"})
		// every block handed over with its targets (and their hashes) in descending order
		nrev := pick(c, 6, 7)
		c.Cov.Bound["descending_targets.Nmax"] = nrev
		if !c.Expired() {
			BFS(c, &HistFamily{Nmax: nrev, Insts: revInsts(true), Or: HistOracle{Roots: true, Prop: "C01"}}, 0)
		}
		tallFamily(c, "C01")
		if !c.Expired() {
			manyRootsFamily(c, "C01")
		}
	}

	Checks["C02"] = func(c *Ctx) {
		trs := pick(c, []uint8{0, 3, 63}, []uint8{0, 1, 3, 31, 63})
		fam := &HistFamily{
			Nmax:      pick(c, 7, 9),
			Insts:     stdInsts(trs, []string{"all", "even"}),
			Or:        HistOracle{Proofs: true, Prop: "C02"},
			PermLimit: pick(c, 3, 4),
		}
		c.Cov.Rule = "BFS over block histories as C01; in every reached state every non-empty subset of the leaves an instance tracks is requested from every prover in all permutations (|S|<=PermLimit) or sorted/reversed/rotated order; targets, canonical proof hashes, acceptance by every verifier and the reported tree indexes are compared with the reference forest; non-trivial = distinct concrete state with a dead leaf"
		c.Cov.Bound["Nmax"] = fam.Nmax
		c.Cov.Bound["TotalRows"] = fmt.Sprint(trs)
		c.Cov.Bound["PermLimit"] = fam.PermLimit
		BFS(c, fam, 0)
		// states reached through an Undo are reachable states too
		nu := pick(c, 4, 5)
		c.Cov.Bound["undo_family.Nmax"] = nu
		BFS(c, &HistFamily{Nmax: nu, Insts: append(stdInsts(pick(c, []uint8{0, 63}, []uint8{0, 3, 63}), []string{"all", "even"})[1:], flagOffInsts()...), Or: HistOracle{Proofs: true, Prop: "C02"}, UndoBud: 1, PermLimit: 2}, 0)
		// a FULL map forest started from the bare roots of a reachable state and evolved further
		// (blocks, Verify(remember), Undo): its tracked leaves must be provable canonically
		nf := pick(c, 3, 4)
		c.Cov.Bound["full_from_roots.Nmax"] = nf
		for _, tr := range []uint8{63} {
			BFS(c, &PartialFamily{Nmax: nf, TR: tr, UndoBud: 1, FRBud: 1, FullFR: true, SetLimit: 2, NoIngest: true, Prop: "C02"}, 0)
		}
		// forests that went through one serialize/restore and then evolved further
		nrt := pick(c, 5, 6)
		c.Cov.Bound["restored_forests"] = fmt.Sprintf("Nmax=%d, one serialize/restore transition; Pollard, MapPollard full / partial", nrt)
		if !c.Expired() {
			BFS(c, &HistFamily{Nmax: nrt, Insts: append(stdInsts([]uint8{0, 63}, []string{"even"})[1:], flagOffInsts()...), Or: HistOracle{Proofs: true, Prop: "C02", OnlyAfter: "roundtrip"}, RTBud: 1, PermLimit: 2}, 0)
		}
		// partial forests that verify-remember and PRUNE: every subset of what is still cached must be proven canonically
		if !c.Expired() {
			np := pick(c, 4, 5)
			c.Cov.Bound["pruning_partial_forests"] = fmt.Sprintf("partial MapPollard TotalRows 0 and 63, Nmax=%d: blocks x Remember subsets, Verify(remember), Prune of every cached subset, one undo; every subset of the cached leaves requested; plus forward-only Nmax=%d with sets of size<=2", np, np+1)
			for _, tr := range []uint8{0, 63} {
				BFS(c, &PartialFamily{Nmax: np, TR: tr, UndoBud: 1, NoIngest: true, ProofOnly: true, Prop: "C02"}, 0)
				if !c.Expired() {
					BFS(c, &PartialFamily{Nmax: np + 1, TR: tr, NoIngest: true, SetLimit: 2, ProofOnly: true, Prop: "C02"}, 0)
				}
			}
		}
		queriedFamily(c, HistOracle{Proofs: true, ProofSets: "small", Prop: "C02"})
		if !c.Expired() {
			manyRootsFamily(c, "C02")
		}
		tallFamily(c, "C02")
	}

	Checks["C10"] = func(c *Ctx) {
		c.Cov.Rule = "two BFS families over block histories: (A) forward only, (B) with undo, serialize/restore and Verify(remember) transitions; in every reached state GetLeafPosition/GetLeafHashPositions are probed with every leaf ever added, every internal node hash, a fresh and the zero hash, GetHash with every position in [0, 2^(rows+1)+2] plus 2^31, 2^32+1, 2^63, 2^64-1, and the tracked-leaf counts are compared with the reference forest; non-trivial = distinct concrete state with a dead leaf or after undo/restore/verify"
		trsA := pick(c, []uint8{0, 1, 2, 3, 4, 5, 62, 63}, []uint8{0, 1, 2, 3, 4, 5, 6, 7, 31, 32, 33, 61, 62, 63})
		famA := &HistFamily{
			Nmax:  pick(c, 8, 9),
			Insts: stdInsts(trsA, []string{"all", "even", "none"}),
			Or:    HistOracle{Lookups: true, Prop: "C10"},
		}
		trsB := pick(c, []uint8{0, 3, 63}, []uint8{0, 2, 3, 63})
		famB := &HistFamily{
			Nmax:    pick(c, 4, 5),
			Insts:   append(stdInsts(trsB, []string{"all", "even", "none"}), flagOffInsts()...),
			Or:      HistOracle{Lookups: true, Prop: "C10"},
			UndoBud: 1,
			RTBud:   1,
			VerBud:  1,
		}
		c.Cov.Bound["A.Nmax"] = famA.Nmax
		c.Cov.Bound["A.TotalRows"] = fmt.Sprint(trsA)
		c.Cov.Bound["B.Nmax"] = famB.Nmax
		c.Cov.Bound["B.TotalRows"] = fmt.Sprint(trsB)
		c.Cov.Bound["B.undo_budget"] = famB.UndoBud
		c.Cov.Bound["B.roundtrip_budget"] = famB.RTBud
		c.Cov.Bound["B.verify_remember_budget"] = famB.VerBud
		BFS(c, famA, 0)
		BFS(c, famB, 0)
		queriedFamily(c, HistOracle{Lookups: true, Prop: "C10"})
		if !c.Expired() {
			tallFamily(c, "C10")
		}
		if !c.Expired() {
			manyRootsFamily(c, "C10")
		}
	}

	Checks["C06"] = func(c *Ctx) {
		c.Cov.Rule = "BFS over block histories with Undo as a transition (newest first, budget = number of undos per path, arbitrary interleaving with further blocks); after every transition of a path that contains an undo, roots, leaf count, GetLeafPosition of every leaf ever added, provability and byte-identical canonical proofs of every tracked subset, and GetHash of every position are compared with the reference forest of the model state; the seen-set key holds the concrete dumps and the top frames of the undo stack; non-trivial = distinct concrete state reached through at least one undo or with a dead leaf"
		trs := pick(c, []uint8{0, 3, 63}, []uint8{0, 2, 3, 63})
		insts := stdInsts(trs, pick(c, []string{"all", "none"}, []string{"all", "even", "none"}))[1:] // no Stump: it cannot undo
		fam := &HistFamily{
			Nmax:      pick(c, 5, 6),
			Insts:     insts,
			Or:        HistOracle{Roots: true, Proofs: true, Lookups: true, Prop: "C06", OnlyAfter: "undo", ProofSets: pick(c, "", "small")},
			UndoBud:   2,
			PermLimit: 2,
		}
		c.Cov.Bound["Nmax"] = fam.Nmax
		c.Cov.Bound["TotalRows"] = fmt.Sprint(trs)
		c.Cov.Bound["undo_budget"] = fam.UndoBud
		BFS(c, fam, 0)
		// blocks, undos and Verify(remember) handed over with descending target lists
		nrev := pick(c, 4, 5)
		c.Cov.Bound["descending_targets"] = fmt.Sprintf("Nmax=%d, undo budget 2, verify budget 1", nrev)
		if !c.Expired() {
			BFS(c, &HistFamily{Nmax: nrev, Insts: append(revInsts(false), flagOffInsts()...), Or: HistOracle{Roots: true, Proofs: true, Lookups: true, Prop: "C06", OnlyAfter: "undo", ProofSets: "small"}, UndoBud: 2, VerBud: 1, PermLimit: 2}, 0)
		}
		// partial forests started from the bare roots of large accumulators (rows up to 63): after
		// every undo the stored positions, the cached-leaf table and every proof must be those of
		// the reference forest of the pre-block state
		c.Cov.Bound["offset_start.bases"] = fmt.Sprint(offsetBases(c.Thorough()))
		for _, b := range offsetBases(c.Thorough()) {
			if c.Expired() {
				break
			}
			BFS(c, &PartialFamily{Nmax: pick(c, 3, 4), TR: 63, UndoBud: 1, SetLimit: 2, NoIngest: true, Prop: "C09", UndoAs: "C06", Collect: "C06", Base: b}, 0)
		}
		if !c.Expired() {
			// cross-feature: Verify(remember) and serialize/restore interleaved with undo
			xf := &HistFamily{
				Nmax:      4,
				Insts:     stdInsts(pick(c, []uint8{0}, []uint8{0, 63}), []string{"all", "none"})[1:],
				Or:        HistOracle{Roots: true, Proofs: true, Lookups: true, Prop: "C06", OnlyAfter: "undo", ProofSets: "small"},
				UndoBud:   pick(c, 1, 2),
				RTBud:     1,
				VerBud:    1,
				PermLimit: 2,
			}
			c.Cov.Bound["cross_feature"] = fmt.Sprintf("Nmax 4, undo %d, Verify(remember) 1, serialize/restore 1", xf.UndoBud)
			BFS(c, xf, 0)
		}
		if !c.Expired() {
			d3 := &HistFamily{
				Nmax:      pick(c, 4, 5),
				Insts:     stdInsts([]uint8{0, 63}, []string{"all", "none"})[1:],
				Or:        HistOracle{Roots: true, Proofs: true, Lookups: true, Prop: "C06", OnlyAfter: "undo", ProofSets: "small"},
				UndoBud:   3,
				PermLimit: 2,
			}
			c.Cov.Bound["three_undos.Nmax"] = d3.Nmax
			BFS(c, d3, 0)
		}
		if !c.Expired() {
			manyRootsFamily(c, "C06")
		}
		if !c.Expired() {
			tallFamily(c, "C06")
		}
	}
}
