package mc

import (
	"bytes"
	"fmt"
	"sort"
	"strings"

	u "github.com/utreexo/utreexo"
	"vmc/ref"
)

// InstCfg describes one implementation instance driven by the history family.
type InstCfg struct {
	Kind string // stump | pollard | map
	Full bool
	TR   uint8  // MapPollard.TotalRows set before first use
	Mode string // partial maps: which added leaves get Remember: all | even | none
	NoRT bool   // twin: never serialized/restored; the preceding instance is compared with it (C13)
	// SizeQ (Pollard): after which operations of the history SerializeSize / GetTotalCount are
	// queried: "" never | block | undo | all. The oracle's own query comes at the end of every
	// history, so the four values are the query schedules closed under operation kind.
	SizeQ string
	// QueryQ: after which operations of the history the whole read-only query set (roots, leaf
	// count, GetStump, every look-up, Prove / Verify of the tracked sets, sizes) is run on the
	// instance and its answers thrown away: "" never | block | undo | all. Queries must not change
	// later answers, and nothing they leave behind may go stale.
	QueryQ string
	// Rev: every block, undo and Verify(remember) hands this instance its targets and their hashes
	// in descending instead of ascending position order (any matching order is accepted input).
	Rev bool
	// Junk: every block, undo and Verify(remember) hands this instance its proof with one trailing
	// unused proof hash (an accepted encoding, C05).
	Junk bool
	// FlagOff (Pollard, full MapPollard): every added leaf is handed over with Remember == false; a
	// full forest tracks everything regardless of the flag.
	FlagOff bool
}

func (c InstCfg) Name() string {
	if c.Rev {
		c.Rev = false
		return c.Name() + "[descending targets]"
	}
	if c.Junk {
		c.Junk = false
		return c.Name() + "[trailing unused proof hash]"
	}
	if c.FlagOff {
		c.FlagOff = false
		return c.Name() + "[leaves added with Remember=false]"
	}
	if c.NoRT {
		c.NoRT = false
		return c.Name() + "[never serialized]"
	}
	switch c.Kind {
	case "map":
		q := ""
		if c.QueryQ != "" {
			q = "[queried after " + c.QueryQ + "]"
		}
		if c.Full {
			return fmt.Sprintf("MapPollard(full,TR=%d)%s", c.TR, q)
		}
		return fmt.Sprintf("MapPollard(partial:%s,TR=%d)%s", c.Mode, c.TR, q)
	case "pollard":
		if c.QueryQ != "" {
			return "Pollard[queried after " + c.QueryQ + "]"
		}
		if c.SizeQ != "" {
			return "Pollard[size queried after " + c.SizeQ + "]"
		}
		return "Pollard"
	}
	return "Stump"
}

// class is the low-cardinality implementation class used in violation signatures.
func (c InstCfg) Class() string {
	switch c.Kind {
	case "map":
		if c.Full {
			return "MapPollard(full)"
		}
		return "MapPollard(partial)"
	case "pollard":
		return "Pollard"
	}
	return "Stump"
}

type inst struct {
	cfg     InstCfg
	stump   *u.Stump
	pol     *u.Pollard
	m       *u.MapPollard
	acc     u.Utreexo
	tracked []bool // model: which added leaves the instance tracks (live ones only matter)
	broken  bool   // a substrate call failed; the instance is no longer compared
}

func newInst(cfg InstCfg) *inst {
	in := &inst{cfg: cfg}
	switch cfg.Kind {
	case "stump":
		in.stump = &u.Stump{}
	case "pollard":
		p := u.NewAccumulator()
		in.pol = &p
		in.acc = in.pol
	case "map":
		m := u.NewMapPollard(cfg.Full)
		m.TotalRows = cfg.TR
		in.m = &m
		in.acc = in.m
	}
	return in
}

func (in *inst) remembers(slot int) bool {
	if in.cfg.Kind != "map" || in.cfg.Full {
		return true
	}
	switch in.cfg.Mode {
	case "all":
		return true
	case "even":
		return slot%2 == 0
	}
	return false
}

func (in *inst) dump() string {
	switch in.cfg.Kind {
	case "stump":
		return fmt.Sprintf("S%d:%s", in.stump.NumLeaves, shortHs(in.stump.Roots))
	case "pollard":
		return DumpPollard(in.pol)
	}
	return DumpMap(in.m)
}

// HistOracle selects which observations are compared after each transition.
type HistOracle struct {
	Roots   bool // C01
	Proofs  bool // C02
	Lookups bool // C10
	// Stale (C03): the honest proofs of the neighbouring state (the state before the last block, or
	// the state the last undo left) are offered to every instance; whatever is accepted must be true
	// in the current state. Finds verifiers that answer from data of an earlier state.
	Stale bool
	// Sizes (C13): SerializeSize and the returned counts equal the bytes WriteTo / Write produce.
	Sizes bool
	Twin  bool // C13: instance i is compared with its never-serialized twin i+1 (GetHash on every position, leaf positions)
	// OnlyAfter restricts reporting to states whose history contains this op kind
	// ("undo" for C06, "roundtrip" for C13); "" reports everywhere.
	OnlyAfter string
	Prop      string // property the clauses are reported under
	ProofSets string // all | small (singletons, pairs, all-live)
}

// HistFamily is the explicit-state search over block histories with optional undo and
// serialize/restore transitions, run on a set of implementation instances.
type HistFamily struct {
	Nmax      int
	Insts     []InstCfg
	Or        HistOracle
	UndoBud   int
	RTBud     int
	VerBud    int // Verify(remember=true) of an arbitrary live leaf set as a transition
	// NodeVer: the verify budget may also be spent on Verify(remember=true) of a TRUE claim about one internal
	// node (partial map forests only), and the Stale oracle then also offers every internal node of the
	// neighbouring state, through Verify and through VerifyPartialProof
	NodeVer bool
	MaxDepth  int // 0 = unbounded (space is finite because N never decreases)
	NoDedup   bool
	PermLimit int    // all permutations of request order for |S| <= PermLimit
	Collect   string // when set, violations of this property are collected instead of Or.Prop's (C17 rides on every family)
}

type frame struct {
	prev ref.State
	op   Op
	// per instance tracked sets before the block
	tracked [][]bool
	stump   []u.Stump
}

type histModel struct {
	s       ref.State
	stack   []frame
	undoBud int
	rtBud   int
	verBud  int
	hasUndo bool
	hasRT   bool
	// the state next to the current one across the last operation (Stale oracle)
	neighbour *ref.State
}

func (m *histModel) AbstractKey() string { return m.s.Key() }

func (f *HistFamily) Root() (*Node, string) {
	md := &histModel{undoBud: f.UndoBud, rtBud: f.RTBud, verBud: f.VerBud}
	return &Node{Model: md}, "root"
}

func (f *HistFamily) Ops(n *Node) []Op {
	md := n.Model.(*histModel)
	if f.MaxDepth > 0 && len(n.Hist) >= f.MaxDepth {
		return nil
	}
	var ops []Op
	live := md.s.Live()
	for _, dels := range subsets(live, true) {
		for adds := 0; md.s.N()+adds <= f.Nmax; adds++ {
			if adds == 0 && len(dels) == 0 {
				continue
			}
			ops = append(ops, Op{Kind: "block", Dels: dels, Adds: adds})
		}
	}
	if md.undoBud > 0 && len(md.stack) > 0 {
		ops = append(ops, Op{Kind: "undo"})
	}
	if md.rtBud > 0 {
		ops = append(ops, Op{Kind: "roundtrip"})
	}
	if md.verBud > 0 {
		for _, set := range subsets(live, false) {
			ops = append(ops, Op{Kind: "verify", Set: set})
		}
		if f.NodeVer {
			for _, p := range internalNodes(ref.APILayout(md.s)) {
				ops = append(ops, Op{Kind: "verify", Enc: "node", Set: []int{int(p)}})
			}
		}
	}
	return ops
}

// run replays hist on fresh instances; it returns the instances, the model and whether every
// substrate call succeeded. The oracle is evaluated by the caller on the final state only
// (prefixes were checked when they were first reached).
func (f *HistFamily) run(x *Exec, hist []Op) ([]*inst, *histModel, bool) {
	insts := make([]*inst, len(f.Insts))
	for i, c := range f.Insts {
		insts[i] = newInst(c)
	}
	md := &histModel{undoBud: f.UndoBud, rtBud: f.RTBud, verBud: f.VerBud}
	ok := true
	for _, op := range hist {
		before := md.s.Clone()
		if !f.apply(x, insts, md, op) {
			ok = false
			break
		}
		md.neighbour = nil
		if op.Kind == "block" || op.Kind == "undo" {
			md.neighbour = &before
		}
		for _, in := range insts {
			if in.pol != nil && !in.broken && (in.cfg.SizeQ == "all" || in.cfg.SizeQ == op.Kind) {
				_ = in.pol.SerializeSize()
				_ = in.pol.GetTotalCount()
			}
		}
		var queried []*inst
		for _, in := range insts {
			if !in.broken && in.stump == nil && (in.cfg.QueryQ == "all" || in.cfg.QueryQ == op.Kind) {
				queried = append(queried, in)
			}
		}
		if len(queried) > 0 {
			qf := *f
			qf.Or = HistOracle{Roots: true, Proofs: true, Lookups: true, Sizes: true, ProofSets: "small", Prop: "suppressed"}
			qf.observe(NewExec("suppressed", func() Case { return Case{} }), queried, md, false)
		}
	}
	return insts, md, ok
}

func (f *HistFamily) apply(x *Exec, insts []*inst, md *histModel, op Op) bool {
	ok := true
	switch op.Kind {
	case "block":
		L := ref.APILayout(md.s)
		proof := L.Proof(op.Dels)
		dh := ref.Hashes(op.Dels)
		adds := hashesFor(md.s.N(), op.Adds)
		fr := frame{prev: md.s.Clone(), op: op}
		for _, in := range insts {
			fr.tracked = append(fr.tracked, append([]bool(nil), in.tracked...))
			if in.stump != nil {
				fr.stump = append(fr.stump, u.Stump{Roots: append([]Hash(nil), in.stump.Roots...), NumLeaves: in.stump.NumLeaves})
			} else {
				fr.stump = append(fr.stump, u.Stump{})
			}
		}
		for _, in := range insts {
			if in.broken {
				continue
			}
			name := in.cfg.Name()
			var err error
			if in.stump != nil {
				d, p := in.order(dh, proof)
				_, err = x.StumpUpdate(in.stump, d, adds, p)
			} else {
				if in.m != nil && !in.cfg.Full {
					// deletions must be cached before Modify on a partial forest
					need := false
					for _, d := range op.Dels {
						if !in.tracked[d] {
							need = true
						}
					}
					if need {
						d, p := in.order(dh, proof)
						if e := x.VerifyAcc(name, in.acc, d, p, true); e != nil {
							x.Report(f.Or.Prop, "honest proof rejected by Verify(remember) on "+in.cfg.Class(), fmt.Sprintf("%s: %v", name, e))
							in.broken = true
							ok = false
							continue
						}
					}
				}
				base := md.s.N()
				leaves := leavesFor(base, op.Adds, func(i int) bool { return in.remembers(base+i) && !in.cfg.FlagOff })
				d, p := in.order(dh, proof)
				err = x.Modify(name, in.acc, leaves, d, p)
			}
			if err != nil {
				x.Report(f.Or.Prop, "honest block rejected by "+in.cfg.Class(), fmt.Sprintf("%s: %v", name, err))
				in.broken = true
				ok = false
				continue
			}
			for _, d := range op.Dels {
				in.tracked[d] = false
			}
			for i := 0; i < op.Adds; i++ {
				in.tracked = append(in.tracked, in.remembers(md.s.N()+i))
			}
		}
		md.stack = append(md.stack, fr)
		md.s = md.s.Apply(op.Dels, op.Adds)
	case "undo":
		fr := md.stack[len(md.stack)-1]
		md.stack = md.stack[:len(md.stack)-1]
		LP := ref.APILayout(fr.prev)
		proof := LP.Proof(fr.op.Dels)
		dh := ref.Hashes(fr.op.Dels)
		prevRoots := append([]Hash(nil), LP.Roots...)
		for i, in := range insts {
			if in.broken {
				continue
			}
			if in.stump != nil {
				*in.stump = fr.stump[i]
				continue
			}
			name := in.cfg.Name()
			d, p := in.order(dh, proof)
			if err := x.Undo(name, in.acc, uint64(fr.op.Adds), p, d, prevRoots); err != nil {
				x.Report(f.Or.Prop, "Undo of the last block failed on "+in.cfg.Class(), fmt.Sprintf("%s: %v", name, err))
				in.broken = true
				ok = false
				continue
			}
			// tracked after undo: what is tracked now among the leaves that existed before
			// the block, plus the block's deletions (cached when the block was applied).
			tr := append([]bool(nil), in.tracked[:fr.prev.N()]...)
			for _, d := range fr.op.Dels {
				tr[d] = true
			}
			in.tracked = tr
		}
		md.s = fr.prev
		md.undoBud--
		md.hasUndo = true
	case "roundtrip":
		for _, in := range insts {
			if in.broken || in.stump != nil || in.cfg.NoRT {
				continue
			}
			if err := roundTrip(x, f.Or.Prop, in); err != nil {
				in.broken = true
				ok = false
			}
		}
		md.rtBud--
		md.hasRT = true
	case "verify":
		L := ref.APILayout(md.s)
		if op.Enc == "node" {
			// a true claim about one internal node, remembered by the partial map forests
			hs, proof := nodeClaim(L, uint64(op.Set[0]))
			for _, in := range insts {
				if in.broken || in.m == nil || in.cfg.Full {
					continue
				}
				if err := x.VerifyAcc(in.cfg.Name(), in.acc, hs, proof, true); err != nil {
					x.Report(f.Or.Prop, "honest proof of an internal node rejected by Verify(remember) on "+in.cfg.Class(), fmt.Sprintf("%s: %v", in.cfg.Name(), err))
					in.broken = true
					ok = false
				}
			}
			md.verBud--
			break
		}
		proof := L.Proof(op.Set)
		hs := ref.Hashes(op.Set)
		for _, in := range insts {
			if in.broken || in.stump != nil {
				continue
			}
			name := in.cfg.Name()
			d, p := in.order(hs, proof)
			if err := x.VerifyAcc(name, in.acc, d, p, true); err != nil {
				x.Report(f.Or.Prop, "honest proof rejected by Verify(remember) on "+in.cfg.Class(), fmt.Sprintf("%s: %v", name, err))
				in.broken = true
				ok = false
				continue
			}
			for _, s := range op.Set {
				in.tracked[s] = true
			}
		}
		md.verBud--
	default:
		panic("hist: bad op " + op.Kind)
	}
	return ok
}

// roundTrip serializes the instance and replaces it by the instance restored from the bytes.
func roundTrip(x *Exec, prop string, in *inst) error {
	var buf bytes.Buffer
	if in.pol != nil {
		var n int64
		err := safe(func() error { var e error; n, e = in.pol.WriteTo(&buf); return e })
		if err != nil {
			x.Report(prop, "WriteTo failed on Pollard", err.Error())
			return err
		}
		size := in.pol.SerializeSize()
		if int(n) != buf.Len() || size != buf.Len() {
			x.Report(prop, "Pollard write byte counts disagree", fmt.Sprintf("returned %d, produced %d, SerializeSize %d", n, buf.Len(), size))
		}
		total := buf.Len()
		var nr int64
		var p2 *u.Pollard
		err = safe(func() error { var e error; nr, p2, e = u.RestorePollardFrom(&buf); return e })
		if err != nil || p2 == nil {
			x.Report(prop, "RestorePollardFrom failed on a valid stream", fmt.Sprint(err))
			return fmt.Errorf("restore failed")
		}
		if int(nr) != total {
			x.Report(prop, "Pollard read byte count differs from stream length", fmt.Sprintf("returned %d, stream %d", nr, total))
		}
		in.pol = p2
		in.acc = p2
		return nil
	}
	var n int
	// own the map iteration order of Write (ascending)
	in.m.Nodes = &orderedNodes{in.m.Nodes, false}
	in.m.CachedLeaves = &orderedCached{in.m.CachedLeaves, false}
	err := safe(func() error { var e error; n, e = in.m.Write(&buf); return e })
	if err != nil {
		x.Report(prop, "Write failed on MapPollard", err.Error())
		return err
	}
	if n != buf.Len() {
		x.Report(prop, "MapPollard write byte count differs from bytes produced", fmt.Sprintf("returned %d, produced %d", n, buf.Len()))
	}
	total := buf.Len()
	m2 := u.NewMapPollard(in.m.Full)
	var nr int
	err = safe(func() error { var e error; nr, e = m2.Read(&buf); return e })
	if err != nil {
		x.Report(prop, "MapPollard.Read failed on a valid stream", err.Error())
		return err
	}
	if nr != total {
		x.Report(prop, "MapPollard read byte count differs from stream length", fmt.Sprintf("returned %d, stream %d", nr, total))
	}
	in.m = &m2
	in.acc = in.m
	return nil
}

func (f *HistFamily) Step(n *Node, op Op) StepResult {
	hist := append(append([]Op(nil), n.Hist...), op)
	xp := f.Or.Prop
	if f.Collect != "" {
		xp = f.Collect
	}
	x := NewExec(xp, func() Case { return mkCase("hist", histPayload{Fam: *f, Hist: hist}) })
	insts, md, ok := f.run(x, hist)
	res := StepResult{}
	if ok {
		report := f.Or.OnlyAfter == "" || (f.Or.OnlyAfter == "undo" && md.hasUndo) || (f.Or.OnlyAfter == "roundtrip" && md.hasRT)
		res.Evals = f.observe(x, insts, md, report)
	}
	x.CheckHeld()
	res.Viol = x.Viol
	res.Notes = x.Notes
	res.Nontriv = md.s.NumLive() < md.s.N() || md.hasUndo || md.hasRT
	if !ok || len(x.Viol) > 0 {
		res.Terminal = true
		return res
	}
	var sb strings.Builder
	sb.WriteString(md.s.Key())
	fmt.Fprintf(&sb, "|u%d r%d v%d|", md.undoBud, md.rtBud, md.verBud)
	if f.NoDedup {
		sb.WriteString(histStr(hist))
	}
	for _, in := range insts {
		sb.WriteString(in.dump())
		sb.WriteString("#")
		for _, t := range in.tracked {
			if t {
				sb.WriteByte('1')
			} else {
				sb.WriteByte('0')
			}
		}
		sb.WriteString("|")
	}
	// the top undoBud frames determine what future undos do
	for i := len(md.stack) - 1; i >= 0 && len(md.stack)-i <= md.undoBud; i-- {
		fmt.Fprintf(&sb, "F:%s:%s;", md.stack[i].prev.Key(), md.stack[i].op.String())
	}
	res.Key = sb.String()
	// the stored model only serves Ops() (which asks whether there is something to undo): every
	// transition replays the history from scratch, so drop all frames but the newest to save memory
	if len(md.stack) > 1 {
		md.stack = md.stack[len(md.stack)-1:]
	}
	res.Next = &Node{Hist: hist, Model: md}
	return res
}

type histPayload struct {
	Fam  HistFamily `json:"family"`
	Hist []Op       `json:"history"`
}

// observe evaluates the selected oracle clauses on every instance and returns the number of
// evaluations. When report is false violations are only noted.
func (f *HistFamily) observe(x *Exec, insts []*inst, md *histModel, report bool) int64 {
	prop := f.Or.Prop
	if !report {
		prop = "suppressed"
	}
	L := ref.APILayout(md.s)
	var evals int64
	if f.Or.Roots {
		for _, in := range insts {
			if in.broken {
				continue
			}
			evals++
			var n uint64
			var roots []Hash
			if in.stump != nil {
				n, roots = in.stump.NumLeaves, in.stump.Roots
			} else {
				n, roots = in.acc.GetNumLeaves(), in.acc.GetRoots()
				x.HoldH(in.cfg.Name()+".GetRoots result", roots)
			}
			if n != md.s.Total() {
				x.Report(prop, "leaf count differs from reference on "+in.cfg.Class(), fmt.Sprintf("%s: want %d got %d", in.cfg.Name(), md.s.Total(), n))
			}
			if !eqH(roots, L.Roots) {
				x.Report(prop, "roots differ from reference on "+in.cfg.Class(), fmt.Sprintf("%s: want %s got %s", in.cfg.Name(), shortHs(L.Roots), shortHs(roots)))
			}
			if in.m != nil {
				// GetStump is the third way a map forest reports its leaf count and roots
				st := in.m.GetStump()
				x.HoldH(in.cfg.Name()+".GetStump result", st.Roots)
				if st.NumLeaves != md.s.Total() || !eqH(st.Roots, L.Roots) {
					x.Report(prop, "GetStump differs from reference on "+in.cfg.Class(), fmt.Sprintf("%s: want %d %s got %d %s", in.cfg.Name(), md.s.Total(), shortHs(L.Roots), st.NumLeaves, shortHs(st.Roots)))
				}
			}
		}
	}
	if f.Or.Stale && md.neighbour != nil {
		evals += f.observeStale(x, prop, insts, md, L)
	}
	if f.Or.Sizes {
		for _, in := range insts {
			if in.broken || in.stump != nil {
				continue
			}
			evals++
			var buf bytes.Buffer
			if in.pol != nil {
				size := in.pol.SerializeSize()
				var n int64
				if err := safe(func() error { var e error; n, e = in.pol.WriteTo(&buf); return e }); err != nil {
					x.Report(prop, "WriteTo failed on Pollard", err.Error())
					continue
				}
				if int(n) != buf.Len() || size != buf.Len() {
					x.Report(prop, "Pollard write byte counts disagree", fmt.Sprintf("%s: returned %d, produced %d, SerializeSize %d", in.cfg.Name(), n, buf.Len(), size))
				}
			} else if in.m != nil {
				var n int
				if err := safe(func() error { var e error; n, e = in.m.Write(&buf); return e }); err != nil {
					x.Report(prop, "Write failed on "+in.cfg.Class(), err.Error())
					continue
				}
				if n != buf.Len() {
					x.Report(prop, "MapPollard write byte count disagrees", fmt.Sprintf("%s: returned %d, produced %d", in.cfg.Name(), n, buf.Len()))
				}
			}
		}
	}
	if f.Or.Lookups {
		evals += f.observeLookups(x, prop, insts, md, L)
	}
	if f.Or.Proofs {
		evals += f.observeProofs(x, prop, insts, md, L)
	}
	if f.Or.Twin {
		for i := 0; i+1 < len(insts); i++ {
			a, b := insts[i], insts[i+1]
			if !b.cfg.NoRT || a.cfg.NoRT || a.broken || b.broken || a.acc == nil {
				continue
			}
			evals++
			maxp := (uint64(2) << L.R) + 3
			for p := uint64(0); p < maxp; p++ {
				if ha, hb := a.acc.GetHash(p), b.acc.GetHash(p); ha != hb {
					x.Report(prop, "a restored forest evolves differently from the original: GetHash differs on "+a.cfg.Class(), fmt.Sprintf("%s pos %d: restored %x original %x", a.cfg.Name(), p, ha[:4], hb[:4]))
					break
				}
			}
			for sl := 0; sl < md.s.N(); sl++ {
				pa, fa := a.acc.GetLeafPosition(ref.LeafHash(sl))
				pb, fb := b.acc.GetLeafPosition(ref.LeafHash(sl))
				if pa != pb || fa != fb {
					x.Report(prop, "a restored forest evolves differently from the original: GetLeafPosition differs on "+a.cfg.Class(), fmt.Sprintf("%s slot %d: restored (%d,%v) original (%d,%v)", a.cfg.Name(), sl, pa, fa, pb, fb))
					break
				}
			}
		}
	}
	return evals
}

// requestOrders returns the request orders tried for a leaf set.
func (f *HistFamily) requestOrders(set []int) [][]int {
	if len(set) <= f.PermLimit {
		return perms(set)
	}
	out := [][]int{append([]int(nil), set...)}
	rev := make([]int, len(set))
	for i, s := range set {
		rev[len(set)-1-i] = s
	}
	out = append(out, rev)
	rot := append(append([]int(nil), set[1:]...), set[0])
	out = append(out, rot)
	return out
}

func (f *HistFamily) proofSets(tracked []int) [][]int {
	if f.Or.ProofSets == "ends" {
		// very large forests: the first tracked leaf, the last eight (the smallest trees), first+last,
		// and the last eight together
		var out [][]int
		n := len(tracked)
		if n == 0 {
			return nil
		}
		out = append(out, []int{tracked[0]})
		if n > 3 {
			out = append(out, []int{tracked[1]}, []int{tracked[n/2], tracked[n/2+1]})
		}
		lo := n - 8
		if lo < 1 {
			lo = 1
		}
		for _, a := range tracked[lo:] {
			out = append(out, []int{a})
		}
		if n > 1 {
			out = append(out, []int{tracked[0], tracked[n-1]}, append([]int(nil), tracked[lo:]...))
		}
		return out
	}
	if f.Or.ProofSets == "tall" {
		// singletons, adjacent pairs, first+last, all tracked
		var out [][]int
		for i, a := range tracked {
			out = append(out, []int{a})
			if i+1 < len(tracked) {
				out = append(out, []int{a, tracked[i+1]})
			}
		}
		if len(tracked) > 2 {
			out = append(out, []int{tracked[0], tracked[len(tracked)-1]}, append([]int(nil), tracked...))
		}
		return out
	}
	if f.Or.ProofSets != "small" {
		return subsets(tracked, false)
	}
	var out [][]int
	for i, a := range tracked {
		out = append(out, []int{a})
		for _, b := range tracked[i+1:] {
			out = append(out, []int{a, b})
		}
	}
	if len(tracked) > 2 {
		out = append(out, append([]int(nil), tracked...))
	}
	return out
}

func (f *HistFamily) observeProofs(x *Exec, prop string, insts []*inst, md *histModel, L *ref.Layout) int64 {
	var evals int64
	var stump *u.Stump
	for _, in := range insts {
		if in.stump != nil && !in.broken {
			stump = in.stump
		}
	}
	refStump := u.Stump{Roots: append([]Hash(nil), L.Roots...), NumLeaves: md.s.Total()}
	if stump == nil {
		stump = &refStump
	}
	live := md.s.Live()
	for _, in := range insts {
		if in.broken || in.stump != nil {
			continue
		}
		var tracked []int
		for _, s := range live {
			if in.tracked[s] {
				tracked = append(tracked, s)
			}
		}
		name := in.cfg.Name()
		for _, set := range f.proofSets(tracked) {
			for _, order := range f.requestOrders(set) {
				evals++
				hs := ref.Hashes(order)
				want := L.Proof(order)
				got, err := x.Prove(name, in.acc, hs)
				if err != nil {
					x.Report(prop, "Prove fails for a tracked live leaf set on "+in.cfg.Class(), fmt.Sprintf("%s slots %v: %v", name, order, err))
					continue
				}
				x.HoldP(name+".Prove result", got)
				if !eqT(got.Targets, want.Targets) {
					x.Report(prop, "Prove returns wrong target positions on "+in.cfg.Class(), fmt.Sprintf("%s slots %v: want %v got %v", name, order, want.Targets, got.Targets))
					continue
				}
				if !eqH(got.Proof, want.Proof) {
					x.Report(prop, "Prove returns non-canonical proof hashes on "+in.cfg.Class(), fmt.Sprintf("%s slots %v: want %s got %s", name, order, shortHs(want.Proof), shortHs(got.Proof)))
					continue
				}
				// accepted by every verifier holding the same roots
				idx, err := x.Verify(*stump, hs, got)
				if err != nil {
					x.Report(prop, "stand-alone Verify rejects a prover's proof", fmt.Sprintf("from %s slots %v: %v", name, order, err))
				} else {
					wantTrees := L.TreesOfTargets(want.Targets)
					gotTrees := append([]int(nil), idx...)
					sort.Ints(gotTrees)
					if fmt.Sprint(wantTrees) != fmt.Sprint(gotTrees) {
						x.Report(prop, "stand-alone Verify reports wrong tree indexes", fmt.Sprintf("slots %v targets %v: want %v got %v", order, want.Targets, wantTrees, idx))
					}
				}
				for _, other := range insts {
					if other.broken || other.stump != nil {
						continue
					}
					if err := x.VerifyAcc(other.cfg.Name(), other.acc, hs, got, false); err != nil {
						x.Report(prop, "verifier rejects a prover's proof: "+other.cfg.Class(), fmt.Sprintf("%s rejects proof from %s for slots %v: %v", other.cfg.Name(), name, order, err))
					}
					// the map forest also accepts targets written in the coordinates of its allocated
					// height; exercised for the argument snapshots (C17), acceptance is not required
					if other.m != nil {
						if tr := other.m.TotalRows; tr > L.R && tr <= 63 {
							alt := u.Proof{Targets: make([]uint64, len(got.Targets)), Proof: got.Proof}
							okT := true
							for i, t := range got.Targets {
								var ok bool
								if alt.Targets[i], ok = ref.Translate(t, L.R, tr); !ok {
									okT = false
								}
							}
							if okT {
								if err := x.VerifyAcc(other.cfg.Name()+"[allocated-row targets]", other.acc, hs, alt, false); err != nil {
									x.Note("map forest rejects targets given in allocated rows")
								}
							}
						}
					}
				}
			}
		}
	}
	return evals
}

func (f *HistFamily) observeLookups(x *Exec, prop string, insts []*inst, md *histModel, L *ref.Layout) int64 {
	var evals int64
	R := L.R
	maxp := (uint64(2) << R) + 3
	nlive := md.s.NumLive()
	// hashes to look up: every leaf ever added, every internal node, roots, fresh
	type probe struct {
		h    Hash
		slot int // >=0: leaf slot
		kind string
	}
	var probes []probe
	for i := 0; i < md.s.N(); i++ {
		probes = append(probes, probe{ref.LeafHash(i), i, "leaf"})
	}
	for p, h := range L.At {
		if _, isLeaf := L.IsLeaf[p]; !isLeaf && h != ref.Zero {
			probes = append(probes, probe{h, -1, "internal node"})
		}
	}
	probes = append(probes, probe{ref.FreshHash(1), -1, "never-added hash"}, probe{ref.Zero, -1, "zero hash"})
	for _, in := range insts {
		if in.broken || in.stump != nil {
			continue
		}
		name, class := in.cfg.Name(), in.cfg.Class()
		partial := in.m != nil && !in.cfg.Full
		for _, pr := range probes {
			evals++
			got, found := in.acc.GetLeafPosition(pr.h)
			wantFound := pr.slot >= 0 && md.s.Alive[pr.slot] && in.tracked[pr.slot]
			if found != wantFound {
				x.Report(prop, fmt.Sprintf("GetLeafPosition found=%v for %s on %s", found, describeProbe(pr.kind, pr.slot, md, in), class),
					fmt.Sprintf("%s: hash %x", name, pr.h[:4]))
			} else if found && got != L.LeafPos[pr.slot] {
				x.Report(prop, "GetLeafPosition returns wrong position on "+class, fmt.Sprintf("%s slot %d: want %d got %d", name, pr.slot, L.LeafPos[pr.slot], got))
			}
		}
		if in.m != nil {
			hs := make([]Hash, len(probes))
			for i := range probes {
				hs[i] = probes[i].h
			}
			evals++
			poss := in.m.GetLeafHashPositions(hs)
			for i, pr := range probes {
				want := uint64(0)
				if pr.slot >= 0 && md.s.Alive[pr.slot] && in.tracked[pr.slot] {
					want = L.LeafPos[pr.slot]
				}
				if i < len(poss) && poss[i] != want {
					x.Report(prop, "GetLeafHashPositions returns wrong position on "+class, fmt.Sprintf("%s %s: want %d got %d", name, describeProbe(pr.kind, pr.slot, md, in), want, poss[i]))
				}
			}
		}
		// positions
		var must map[uint64]bool
		if partial {
			must = map[uint64]bool{}
			for _, rp := range L.RootPos {
				must[rp] = true
			}
			for s, p := range L.LeafPos {
				if in.tracked[s] {
					must[p] = true
					for {
						pp, ok := L.Parent[p]
						if !ok {
							break
						}
						must[p^1] = true
						p = pp
					}
				}
			}
		}
		var LT *ref.Layout
		if in.m != nil {
			if tr := in.m.GetTreeRows(); tr > R && tr <= 63 {
				LT = ref.LayoutOf(md.s, tr)
			}
		}
		probesPos := make([]uint64, 0, maxp+4)
		for p := uint64(0); p < maxp; p++ {
			probesPos = append(probesPos, p)
		}
		probesPos = append(probesPos, 1<<31, 1<<32+1, 1<<63, ^uint64(0))
		for _, p := range probesPos {
			evals++
			got := in.acc.GetHash(p)
			want, exists := L.At[p]
			switch {
			case !exists:
				if got == ref.Zero {
					break
				}
				// The map forest also accepts positions in the coordinates of its allocated
				// height (GetTreeRows), which is how String() and the repository's tests
				// address it: a position that is no node in API coordinates may return the
				// true hash of the node at that position in allocated coordinates.
				if LT != nil {
					if h, ok := LT.At[p]; ok && h == got {
						break
					}
				}
				x.Report(prop, "GetHash returns a non-zero hash for a position where no node exists on "+class, fmt.Sprintf("%s pos %d (N=%d rows=%d): got %x", name, p, md.s.Total(), R, got[:4]))
			case partial && !must[p]:
				if got != want && got != ref.Zero {
					x.Report(prop, "GetHash returns a false hash on "+class, fmt.Sprintf("%s pos %d: want %x or zero, got %x", name, p, want[:4], got[:4]))
				}
			default:
				if got != want {
					x.Report(prop, "GetHash returns the wrong hash for an existing stored position on "+class, fmt.Sprintf("%s pos %d: want %x got %x", name, p, want[:4], got[:4]))
				}
			}
		}
		// tracked-leaf counts
		evals++
		if in.pol != nil {
			if len(in.pol.NodeMap) != nlive || in.pol.NumLeaves-in.pol.NumDels != uint64(nlive) {
				x.Report(prop, "tracked live leaf count differs from additions minus deletions on Pollard", fmt.Sprintf("want %d: len(NodeMap)=%d NumLeaves-NumDels=%d", nlive, len(in.pol.NodeMap), in.pol.NumLeaves-in.pol.NumDels))
			}
		} else if in.m != nil {
			wantN := 0
			for _, s := range md.s.Live() {
				if in.tracked[s] {
					wantN++
				}
			}
			if got := in.m.CachedLeaves.Length(); got != wantN {
				x.Report(prop, "tracked live leaf count differs from the model on "+class, fmt.Sprintf("%s: want %d got %d", name, wantN, got))
			}
		}
	}
	return evals
}

func describeProbe(kind string, slot int, md *histModel, in *inst) string {
	if slot < 0 {
		return "a " + kind
	}
	if !md.s.Alive[slot] {
		return "a deleted leaf"
	}
	if !in.tracked[slot] {
		return "an untracked live leaf"
	}
	return "a tracked live leaf"
}

// internalNodes returns the positions of L that hold a node which is not a leaf, ascending.
func internalNodes(L *ref.Layout) []uint64 {
	var out []uint64
	for p := range L.At {
		if _, leaf := L.IsLeaf[p]; leaf {
			continue
		}
		if _, op := L.Opaque[p]; op {
			continue
		}
		if L.At[p] == ref.Zero {
			continue
		}
		out = append(out, p)
	}
	sort.Slice(out, func(i, j int) bool { return out[i] < out[j] })
	return out
}

// nodeClaim is the true claim "the node at position p has hash At[p]" with its canonical proof.
func nodeClaim(L *ref.Layout, p uint64) ([]Hash, u.Proof) {
	pr := u.Proof{Targets: []uint64{p}}
	for _, q := range L.ProofPositions(pr.Targets) {
		pr.Proof = append(pr.Proof, L.At[q])
	}
	return []Hash{L.At[p]}, pr
}

// observeStale: see HistOracle.Stale.
func (f *HistFamily) observeStale(x *Exec, prop string, insts []*inst, md *histModel, L *ref.Layout) int64 {
	ns := *md.neighbour
	LN := ref.APILayout(ns)
	var evals int64
	type claim struct {
		hs    []Hash
		proof u.Proof
	}
	var claims []claim
	for _, set := range subsets(ns.Live(), false) {
		claims = append(claims, claim{ref.Hashes(set), LN.Proof(set)})
	}
	if f.NodeVer {
		for _, p := range internalNodes(LN) {
			hs, pr := nodeClaim(LN, p)
			claims = append(claims, claim{hs, pr})
		}
	}
	for _, cl := range claims {
		proof, hs := cl.proof, cl.hs
		for _, in := range insts {
			if in.broken {
				continue
			}
			var LT *ref.Layout
			if in.m != nil {
				if tr := in.m.TotalRows; tr > L.R && tr <= 63 {
					LT = ref.LayoutOf(md.s, tr)
				}
			}
			judge := func(via string, err error) {
				evals++
				if err != nil {
					return
				}
				for i, t := range proof.Targets {
					at, ok := L.At[t]
					if ok && at == hs[i] {
						continue
					}
					if LT != nil {
						if at2, ok2 := LT.At[t]; ok2 && at2 == hs[i] {
							continue
						}
					}
					x.Report(prop, "false claim accepted by "+in.cfg.Class()+via+" [the claim was true in the neighbouring state of the history]", fmt.Sprintf("%s in state %s: claim hash %x at position %d (targets %v); it held in state %s", in.cfg.Name(), md.s.Key(), hs[i][:4], t, proof.Targets, ns.Key()))
					break
				}
			}
			if in.stump != nil {
				st := u.Stump{Roots: append([]Hash(nil), in.stump.Roots...), NumLeaves: in.stump.NumLeaves}
				_, err := x.Verify(st, hs, proof)
				judge("", err)
				continue
			}
			judge("", x.VerifyAcc(in.cfg.Name(), in.acc, hs, proof, false))
			if f.NodeVer && in.m != nil {
				// the same claim through VerifyPartialProof: with the neighbouring state's proof hashes, and with the
				// current state's hashes at the positions the forest reports as missing
				m := in.m
				judge(" (VerifyPartialProof)", safe(func() error { return m.VerifyPartialProof(proof.Targets, hs, proof.Proof, false) }))
				var miss []uint64
				if safe(func() error { miss = m.GetMissingPositions(proof.Targets); return nil }) == nil {
					cur := make([]Hash, 0, len(miss))
					for _, q := range miss {
						h, ok := L.At[q]
						if !ok && LT != nil {
							h, ok = LT.At[q]
						}
						if !ok {
							h = ref.FreshHash(5)
						}
						cur = append(cur, h)
					}
					judge(" (VerifyPartialProof)", safe(func() error { return m.VerifyPartialProof(proof.Targets, hs, cur, false) }))
				}
			}
		}
	}
	return evals
}

// queriedFamily: instances that are queried (the whole read-only query set) after the blocks, after
// the undos or after every operation of a history, next to one that is only queried at the end;
// the calling property's oracle is evaluated at the end of every history.
func queriedFamily(c *Ctx, or HistOracle) {
	var insts []InstCfg
	for _, base := range []InstCfg{{Kind: "pollard"}, {Kind: "map", Full: true, TR: 0}, {Kind: "map", Full: false, TR: 0, Mode: "all"}, {Kind: "map", Full: false, TR: 63, Mode: "even"}} {
		for _, q := range []string{"block", "undo", "all"} {
			v := base
			v.QueryQ = q
			insts = append(insts, v)
		}
	}
	n := pick(c, 3, 4)
	c.Cov.Bound["queried_instances"] = fmt.Sprintf("Nmax=%d, undo budget 2; Pollard, MapPollard full / partial queried after blocks / undos / every operation", n)
	if !c.Expired() {
		BFS(c, &HistFamily{Nmax: n, Insts: insts, Or: or, UndoBud: 2, PermLimit: 2}, 0)
	}
}

// order returns the (hashes, proof) pair as this instance is to receive it (see InstCfg.Rev).
func (in *inst) order(hs []Hash, proof u.Proof) ([]Hash, u.Proof) {
	if in.cfg.Junk && len(proof.Targets) > 0 {
		proof = u.Proof{Targets: proof.Targets, Proof: append(append([]Hash(nil), proof.Proof...), ref.FreshHash(9))}
	}
	if !in.cfg.Rev || len(hs) < 2 || len(hs) != len(proof.Targets) {
		return hs, proof
	}
	n := len(hs)
	rh := make([]Hash, n)
	rt := make([]uint64, n)
	for i := range hs {
		rh[n-1-i] = hs[i]
		rt[n-1-i] = proof.Targets[i]
	}
	return rh, u.Proof{Targets: rt, Proof: proof.Proof}
}

func (f *HistFamily) CaseOf(hist []Op) (Case, string) {
	return mkCase("hist", histPayload{Fam: *f, Hist: hist}), histStr(hist)
}
