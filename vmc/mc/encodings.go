package mc

import (
	"encoding/json"
	"fmt"
	"runtime/debug"
	"sync/atomic"

	u "github.com/utreexo/utreexo"
	"vmc/ref"
)

// C05: every accepted encoding of a deletion proof is applied identically by every
// implementation. States come from the forward BFS (de-duplicated on concrete dumps); for
// every state and every non-empty set S of live leaves, every encoding of the deletion proof
// from a closed family is first offered to Verify and, if accepted, applied with k additions
// to fresh replays of the state's history on every implementation.

type encCase struct {
	Hist []Op   `json:"history"`
	Set  []int  `json:"delete"` // live leaf slots, in the order the targets are listed
	Enc  string `json:"encoding"`
	Junk int    `json:"junk"`
	Adds int    `json:"adds"`
	Inst int    `json:"instance"`
	// offset-start states: Base opaque leaves, then AddN added leaves of which Alive are live
	// (Hist is empty); Inst 0 = Stump, 1 = partial MapPollard started from bare roots
	Base  uint64 `json:"base,omitempty"`
	AddN  int    `json:"addN,omitempty"`
	Alive string `json:"alive,omitempty"`
}

var encInsts = []InstCfg{
	{Kind: "stump"},
	{Kind: "pollard"},
	{Kind: "map", Full: true, TR: 0},
	{Kind: "map", Full: true, TR: 63},
	{Kind: "map", Full: false, TR: 0, Mode: "all"},
	{Kind: "map", Full: false, TR: 63, Mode: "all"},
	{Kind: "map", Full: false, TR: 0, Mode: "none"}, // deletions first verified with remember, same encoding
	{Kind: "map", Full: false, TR: 3, Mode: "none"},
	{Kind: "map", Full: false, TR: 63, Mode: "fromroots"}, // NewMapPollardFromRoots + Verify(remember)
}

// buildEncoding returns the (hashes, proof) for the encoding, or ok=false when the helper that
// assembles it fails (which is C14's concern).
func buildEncoding(s ref.State, set []int, enc string, junk int) (hs []Hash, proof u.Proof, ok bool) {
	L := ref.APILayout(s)
	switch {
	case enc == "direct":
		proof = L.Proof(set)
		hs = ref.Hashes(set)
	case len(enc) > 9 && enc[:9] == "addproof:":
		// split mask over the set: bit i set -> element i goes to part A
		var mask int
		fmt.Sscan(enc[9:], &mask)
		var a, b []int
		for i, sl := range set {
			if mask&(1<<uint(i)) != 0 {
				a = append(a, sl)
			} else {
				b = append(b, sl)
			}
		}
		pa, pb := L.Proof(a), L.Proof(b)
		if err := safe(func() error {
			hs, proof = u.AddProof(pa, pb, ref.Hashes(a), ref.Hashes(b), s.Total())
			return nil
		}); err != nil {
			return nil, u.Proof{}, false
		}
	case enc == "subset":
		live := s.Live()
		pall := L.Proof(live)
		wants := L.Targets(set)
		if err := safe(func() error {
			var e error
			hs, proof, e = u.GetProofSubset(pall, ref.Hashes(live), wants, s.Total())
			return e
		}); err != nil {
			return nil, u.Proof{}, false
		}
	default:
		panic("bad encoding " + enc)
	}
	proof = u.Proof{Targets: append([]uint64(nil), proof.Targets...), Proof: append([]Hash(nil), proof.Proof...)}
	for j := 0; j < junk; j++ {
		proof.Proof = append(proof.Proof, ref.FreshHash(20+j))
	}
	return hs, proof, true
}

// evalEncoding applies one encoding to one instance after replaying hist. It returns
// (accepted by Verify, violations).
func evalEncoding(ec encCase) (acc bool, vs []Violation) {
	defer func() {
		if r := recover(); r != nil {
			acc, vs = true, []Violation{panicViolation("C05", r, debug.Stack(), mkCase("enc", ec), "")}
		}
	}()
	if ec.Base > 0 {
		return evalEncodingBase(ec)
	}
	cfg := encInsts[ec.Inst]
	x := NewExec("C05", func() Case { return mkCase("enc", ec) })
	replayCfg := cfg
	if cfg.Mode == "fromroots" {
		replayCfg.Mode = "none"
	}
	fam := &HistFamily{Nmax: 64, Insts: []InstCfg{replayCfg}, Or: HistOracle{Prop: "substrate"}}
	insts, md, ok := fam.run(x, ec.Hist)
	if !ok {
		return false, nil
	}
	in := insts[0]
	s := md.s
	L := ref.APILayout(s)
	hs, proof, ok := buildEncoding(s, ec.Set, ec.Enc, ec.Junk)
	if !ok {
		return false, nil
	}
	// the encoding's targets must be positions of the named live leaves with matching hashes
	want := map[uint64]Hash{}
	for _, sl := range ec.Set {
		want[L.LeafPos[sl]] = ref.LeafHash(sl)
	}
	if len(hs) != len(proof.Targets) || len(hs) != len(ec.Set) {
		return false, nil
	}
	for i, t := range proof.Targets {
		if want[t] != hs[i] {
			return false, nil
		}
	}
	refStump := u.Stump{Roots: append([]Hash(nil), L.Roots...), NumLeaves: s.Total()}
	if _, err := x.Verify(refStump, hs, proof); err != nil {
		return false, nil // not an accepted encoding: outside the property's premise
	}
	after := s.Apply(ec.Set, ec.Adds)
	LA := ref.APILayout(after)
	name, class := cfg.Name(), cfg.Class()
	if cfg.Mode == "fromroots" {
		name, class = "MapPollard(partial from roots)", "MapPollard(partial)"
		nm := u.NewMapPollardFromRoots(append([]Hash(nil), L.Roots...), s.Total(), false)
		in.m, in.acc = &nm, &nm
		in.tracked = make([]bool, s.N())
	}
	encDesc := fmt.Sprintf("%s junk=%d", ec.Enc, ec.Junk)
	var n uint64
	var roots []Hash
	if in.stump != nil {
		if _, err := x.StumpUpdate(in.stump, hs, hashesFor(s.N(), ec.Adds), proof); err != nil {
			x.Report("C05", "an accepted deletion proof is rejected by Stump.Update", fmt.Sprintf("delete %v (%s): %v", ec.Set, encDesc, err))
			return true, x.Viol
		}
		n, roots = in.stump.NumLeaves, in.stump.Roots
	} else {
		if in.m != nil && !cfg.Full {
			need := false
			for _, d := range ec.Set {
				if !in.tracked[d] {
					need = true
				}
			}
			if need {
				if err := x.VerifyAcc(name, in.acc, hs, proof, true); err != nil {
					x.Report("C05", "an accepted deletion proof is rejected by Verify(remember) on "+class, fmt.Sprintf("delete %v (%s): %v", ec.Set, encDesc, err))
					return true, x.Viol
				}
			}
		}
		if err := x.Modify(name, in.acc, leavesFor(s.N(), ec.Adds, func(int) bool { return true }), hs, proof); err != nil {
			x.Report("C05", "an accepted deletion proof is rejected by Modify on "+class, fmt.Sprintf("%s delete %v (%s) add %d: %v", name, ec.Set, encDesc, ec.Adds, err))
			return true, x.Viol
		}
		n, roots = in.acc.GetNumLeaves(), in.acc.GetRoots()
	}
	if n != after.Total() {
		x.Report("C05", "leaf count after applying an accepted block differs from the reference on "+class, fmt.Sprintf("%s delete %v (%s) add %d: want %d got %d", name, ec.Set, encDesc, ec.Adds, after.Total(), n))
	}
	if !eqH(roots, LA.Roots) {
		x.Report("C05", "roots after applying an accepted block differ from the reference on "+class, fmt.Sprintf("%s delete %v (%s) add %d: want %s got %s", name, ec.Set, encDesc, ec.Adds, shortHs(LA.Roots), shortHs(roots)))
	}
	x.CheckHeld()
	return true, x.Viol
}

// evalEncodingBase: the offset-start variant of evalEncoding.
func evalEncodingBase(ec encCase) (bool, []Violation) {
	x := NewExec("C05", func() Case { return mkCase("enc", ec) })
	s := ref.State{Base: ec.Base, Alive: make([]bool, ec.AddN)}
	var dead, all []int
	for i := 0; i < ec.AddN; i++ {
		s.Alive[i] = ec.Alive[i] == '1'
		all = append(all, i)
		if !s.Alive[i] {
			dead = append(dead, i)
		}
	}
	L := ref.APILayout(s)
	hs, proof, ok := buildEncoding(s, ec.Set, ec.Enc, ec.Junk)
	if !ok {
		return false, nil
	}
	refStump := u.Stump{Roots: append([]Hash(nil), L.Roots...), NumLeaves: s.Total()}
	if _, err := x.Verify(refStump, hs, proof); err != nil {
		return false, nil
	}
	after := s.Apply(ec.Set, ec.Adds)
	LA := ref.APILayout(after)
	encDesc := fmt.Sprintf("%s junk=%d", ec.Enc, ec.Junk)
	var n uint64
	var roots []Hash
	class := "Stump"
	if ec.Inst == 0 {
		st := u.Stump{Roots: append([]Hash(nil), L.Roots...), NumLeaves: s.Total()}
		if _, err := x.StumpUpdate(&st, hs, hashesFor(s.N(), ec.Adds), proof); err != nil {
			x.Report("C05", "an accepted deletion proof is rejected by Stump.Update", fmt.Sprintf("base %d delete %v (%s): %v", ec.Base, ec.Set, encDesc, err))
			return true, x.Viol
		}
		n, roots = st.NumLeaves, st.Roots
	} else {
		class = "MapPollard(partial)"
		fam := &PartialFamily{Nmax: 64, TR: 63, Base: ec.Base, Prop: "substrate"}
		var hist []Op
		if ec.AddN > 0 {
			hist = append(hist, Op{Kind: "block", Adds: ec.AddN, Rem: all})
		}
		if len(dead) > 0 {
			hist = append(hist, Op{Kind: "block", Dels: dead, Rem: []int{}})
		}
		m, _, ok := fam.run(x, hist)
		if !ok {
			return false, nil
		}
		if err := x.Modify("MapPollard(partial from roots)", m, leavesFor(s.N(), ec.Adds, func(int) bool { return true }), hs, proof); err != nil {
			x.Report("C05", "an accepted deletion proof is rejected by Modify on "+class, fmt.Sprintf("base %d delete %v (%s) add %d: %v", ec.Base, ec.Set, encDesc, ec.Adds, err))
			return true, x.Viol
		}
		n, roots = m.GetNumLeaves(), m.GetRoots()
	}
	if n != after.Total() {
		x.Report("C05", "leaf count after applying an accepted block differs from the reference on "+class, fmt.Sprintf("base %d delete %v (%s) add %d: want %d got %d", ec.Base, ec.Set, encDesc, ec.Adds, after.Total(), n))
	}
	if !eqH(roots, LA.Roots) {
		x.Report("C05", "roots after applying an accepted block differ from the reference on "+class, fmt.Sprintf("base %d delete %v (%s) add %d: want %d roots %s got %d roots %s", ec.Base, ec.Set, encDesc, ec.Adds, len(LA.Roots), shortHs(LA.Roots), len(roots), shortHs(roots)))
	}
	x.CheckHeld()
	return true, x.Viol
}

func init() {
	Engines["enc"] = func(prop string, payload json.RawMessage) ([]Violation, error) {
		var ec encCase
		if err := json.Unmarshal(payload, &ec); err != nil {
			return nil, err
		}
		_, vs := evalEncoding(ec)
		var out []Violation
		for _, v := range vs {
			if v.Prop == prop {
				v.Case = Case{Engine: "enc", Payload: payload}
				out = append(out, v)
			}
		}
		return out, nil
	}

	Checks["C05"] = func(c *Ctx) {
		n5 := pick(c, 6, 8)
		permLimit := pick(c, 4, 4)
		c.Cov.Rule = "states = all states of the forward BFS with N<=Nmax (de-duplicated on concrete dumps); for every state and every non-empty set S of live leaves, every encoding from the closed family {direct proof in every permutation of S (|S|<=PermLimit, else sorted/reversed/rotated) with 0..2 trailing unused proof hashes, AddProof of every two-part split of S, GetProofSubset of the all-live proof} that Verify accepts is applied with k in {0,1,2} additions to fresh replays of the state's history on Stump, Pollard, full MapPollard (TR 0, 63), partial MapPollard with the leaves cached beforehand (TR 0, 63), partial MapPollard after Verify(remember) of the same encoding (TR 0, 3) and NewMapPollardFromRoots; roots and leaf count must equal the reference for alive - S plus the additions; a second pass takes the states whose history contains one serialize/restore of the forest (so that restored forests that evolved further are covered) with the direct encodings; an undo pass does the same for the states whose history contains one Undo of the newest block (forests that were rolled back and evolved further); a third pass takes structured taller states [add N][delete S, add k] (N around 8 and 16, S singles / sibling pairs / aligned subtrees and their near-complements) and rolled-back states [add N][delete S, add k][delete T, add j][undo] (every S, T, k<=2, j<=3) with every live singleton and adjacent pair; a fourth pass starts Stump and a partial MapPollard from the bare roots of accumulators with 2^5..2^63-4 leaves plus up to three added leaves; non-trivial = accepted non-canonical encodings applied"
		c.Cov.Bound["Nmax"] = n5
		c.Cov.Bound["PermLimit"] = permLimit
		c.Cov.Bound["instances"] = len(encInsts)
		var accepted, rejected, applied int64
		var sampled int32
		var ntasks int
		pass := func(nmax, rtBud, undoBud int, instIdx []int, assembled bool) {
			collect := &HistFamily{Nmax: nmax, RTBud: rtBud, UndoBud: undoBud, Insts: []InstCfg{{Kind: "pollard"}, {Kind: "map", Full: true, TR: 0}, {Kind: "map", Full: false, TR: 0, Mode: "all"}}, Or: HistOracle{Prop: "C05"}}
			type task struct {
				hist []Op
				s    ref.State
				set  []int
			}
			var tasks []task
			sub := NewCov() // the collecting BFS's counters are not this check's transitions
			cc := *c
			cc.Cov = sub
			BFSCollect(&cc, collect, 0, func(n *Node) {
				md := n.Model.(*histModel)
				if rtBud > 0 && !md.hasRT {
					return // covered by the pass without restore
				}
				if undoBud > 0 && !md.hasUndo {
					return // covered by the pass without undo
				}
				for _, set := range subsets(md.s.Live(), false) {
					tasks = append(tasks, task{n.Hist, md.s, set})
				}
			})
			c.Cov.AddStates(sub.States)
			if !sub.Exhaustive {
				c.Cov.NotExhaustive(sub.Capped)
			}
			ntasks += len(tasks)
			hf := &HistFamily{PermLimit: permLimit}
			ok := parallelFor(c, len(tasks), func(i int) {
				tk := tasks[i]
				type encv struct {
					set  []int
					enc  string
					junk int
				}
				var encs []encv
				for _, order := range hf.requestOrders(tk.set) {
					for junk := 0; junk <= 2; junk++ {
						encs = append(encs, encv{order, "direct", junk})
					}
				}
				if assembled {
					if len(tk.set) >= 2 {
						for mask := 1; mask < (1<<uint(len(tk.set)))-1; mask++ {
							encs = append(encs, encv{tk.set, fmt.Sprintf("addproof:%d", mask), 0})
						}
					}
					encs = append(encs, encv{tk.set, "subset", 0})
					if len(tk.set) >= 2 {
						rev := make([]int, len(tk.set))
						for i, x := range tk.set {
							rev[len(tk.set)-1-i] = x
						}
						encs = append(encs, encv{rev, "subset", 0})
					}
				}
				for _, e := range encs {
					acc := false
					for k := 0; k <= 2; k++ {
						for _, ii := range instIdx {
							ec := encCase{Hist: tk.hist, Set: e.set, Enc: e.enc, Junk: e.junk, Adds: k, Inst: ii}
							a, vs := evalEncoding(ec)
							if !a {
								break
							}
							acc = true
							atomic.AddInt64(&applied, 1)
							c.Col.Add(vs...)
						}
						if !acc {
							break
						}
					}
					if acc {
						atomic.AddInt64(&accepted, 1)
						canonical := e.enc == "direct" && e.junk == 0
						if !canonical {
							c.Cov.Distinct(fmt.Sprintf("%s|%v|%s|%d", histStr(tk.hist), e.set, e.enc, e.junk))
							if atomic.AddInt32(&sampled, 1) <= 4 {
								c.Cov.Sample(map[string]any{"history": histStr(tk.hist), "delete": e.set, "encoding": e.enc, "junk": e.junk})
							}
						}
					} else {
						atomic.AddInt64(&rejected, 1)
					}
				}
			})
			if !ok {
				c.Cov.NotExhaustive("deadline reached during encoding enumeration")
			}
		}
		all := make([]int, len(encInsts))
		for i := range all {
			all[i] = i
		}
		pass(n5, 0, 0, all, true)
		// histories that contain one serialize/restore of the forest (Pollard, MapPollard), so
		// that an accepted block is also applied to restored forests that evolved further
		nrt := pick(c, 4, 5)
		c.Cov.Bound["restore_pass.Nmax"] = nrt
		pass(nrt, 1, 0, []int{1, 2, 4, 6}, false)
		// histories that contain one Undo of the newest block (Pollard, MapPollard), so that an
		// accepted block is also applied to forests that were rolled back and evolved further
		nun := pick(c, 5, 6)
		c.Cov.Bound["undo_pass.Nmax"] = nun
		pass(nun, 0, 1, []int{1, 2, 3, 4, 6}, false)
		// structured taller states: [add N][delete S, add k] with S from a closed family, then every
		// live singleton and adjacent pair with the direct encodings (rows 3-4, forests that grow
		// past a power of two after deletions left gaps)
		tallNs := pick(c, []int{8, 9}, []int{8, 9, 15, 16, 17})
		c.Cov.Bound["structured_states.N"] = fmt.Sprint(tallNs)
		{
			type ttask struct {
				hist []Op
				s    ref.State
			}
			var tts []ttask
			for _, N := range tallNs {
				seen := map[string]bool{}
				var sets [][]int
				add := func(x []int) {
					if len(x) > 0 && !seen[fmt.Sprint(x)] {
						seen[fmt.Sprint(x)] = true
						sets = append(sets, x)
					}
				}
				for i := 0; i < N; i++ {
					add([]int{i})
				}
				for i := 0; i+1 < N; i += 2 {
					add([]int{i, i + 1})
				}
				for h := uint(1); (1 << h) <= N; h++ {
					for a := 0; a+(1<<h) <= N; a += 1 << h {
						var x []int
						for y := a; y < a+(1<<h); y++ {
							x = append(x, y)
						}
						add(x)
						if len(x) > 2 {
							add(x[1:])
							add(x[:len(x)-1])
						}
					}
				}
				for _, S := range sets {
					for k := 0; k <= 2; k++ {
						h := []Op{{Kind: "block", Adds: N}, {Kind: "block", Dels: S, Adds: k}}
						st := ref.State{}.Apply(nil, N).Apply(S, k)
						tts = append(tts, ttask{h, st})
					}
				}
			}
			// rolled-back structured states: [add N][delete S, add k][delete T, add j][undo] for every
			// non-empty S, every non-empty T of the leaves live after the second block, k 0..2, j 0..3
			// (the undone block empties trees whose leaves moved up earlier and grows the forest)
			undoNs := pick(c, []int{4}, []int{3, 4, 5, 6})
			c.Cov.Bound["structured_undo_states.N"] = fmt.Sprint(undoNs)
			for _, N := range undoNs {
				all := make([]int, N)
				for i := range all {
					all[i] = i
				}
				for _, S := range subsets(all, false) {
					for k := 0; k <= 2; k++ {
						st := ref.State{}.Apply(nil, N).Apply(S, k)
						for _, T := range subsets(st.Live(), false) {
							for j := 0; j <= 3; j++ {
								h := []Op{{Kind: "block", Adds: N}, {Kind: "block", Dels: S, Adds: k}, {Kind: "block", Dels: T, Adds: j}, {Kind: "undo"}}
								tts = append(tts, ttask{h, st})
							}
						}
					}
				}
			}
			c.Cov.AddStates(int64(len(tts)))
			instIdx := []int{0, 1, 2, 3, 4, 6}
			ok := parallelFor(c, len(tts), func(i int) {
				tk := tts[i]
				live := tk.s.Live()
				var lsets [][]int
				for j, a := range live {
					lsets = append(lsets, []int{a})
					if j+1 < len(live) {
						lsets = append(lsets, []int{a, live[j+1]}, []int{live[j+1], a})
					}
				}
				for _, set := range lsets {
					for junk := 0; junk <= 1; junk++ {
						acc := false
						for _, k := range []int{0, 1} {
							for _, ii := range instIdx {
								a, vs := evalEncoding(encCase{Hist: tk.hist, Set: set, Enc: "direct", Junk: junk, Adds: k, Inst: ii})
								if !a {
									break
								}
								acc = true
								atomic.AddInt64(&applied, 1)
								c.Col.Add(vs...)
							}
							if !acc {
								break
							}
						}
						if acc {
							atomic.AddInt64(&accepted, 1)
							if junk > 0 || len(set) > 1 {
								c.Cov.Distinct(fmt.Sprintf("%s|%v|%d", histStr(tk.hist), set, junk))
							}
						}
					}
				}
			})
			if !ok {
				c.Cov.NotExhaustive("deadline reached during the structured-state pass")
			}
		}
		// offset-start states: accumulators of 2^5 .. 2^63-4 opaque leaves plus up to three added leaves
		// (every alive subset); every deletion set of the added live leaves (also none), every
		// permutation, 0-1 junk hashes, 0-3 additions; Stump and a partial MapPollard from bare roots
		{
			type otask struct {
				base  uint64
				n     int
				alive string
				set   []int
			}
			var ots []otask
			for _, st := range offsetStates(offsetBases(c.Thorough()), 3) {
				for _, set := range subsets(st.Live(), true) {
					ots = append(ots, otask{st.Base, st.N(), boolKey(st.Alive), set})
				}
			}
			c.Cov.Bound["offset_start.bases"] = fmt.Sprint(offsetBases(c.Thorough()))
			c.Cov.AddStates(int64(len(offsetStates(offsetBases(c.Thorough()), 3))))
			ok := parallelFor(c, len(ots), func(i int) {
				tk := ots[i]
				orders := [][]int{tk.set}
				if len(tk.set) > 1 {
					orders = perms(tk.set)
				}
				for _, order := range orders {
					for junk := 0; junk <= 1; junk++ {
						for k := 0; k <= 3; k++ {
							if tk.base+uint64(tk.n)+uint64(k) > uint64(1)<<63 || (len(order) == 0 && k == 0) {
								continue
							}
							for inst := 0; inst <= 1; inst++ {
								a, vs := evalEncoding(encCase{Set: order, Enc: "direct", Junk: junk, Adds: k, Inst: inst, Base: tk.base, AddN: tk.n, Alive: tk.alive})
								if a {
									atomic.AddInt64(&applied, 1)
									c.Col.Add(vs...)
								}
							}
						}
					}
				}
			})
			if !ok {
				c.Cov.NotExhaustive("deadline reached during the offset-start pass")
			}
		}
		c.Cov.AddTransitions(applied)
		c.Cov.AddEvals(applied)
		c.Cov.SetExtra("accepted_encodings", accepted)
		c.Cov.SetExtra("encodings_not_accepted_by_Verify_or_not_assembled", rejected)
		c.Cov.SetExtra("state_leafset_pairs", ntasks)
	}
}
