//go:build verif

package mc

import (
	"fmt"
	"os"
)

// c12dbg <scenario-name> <n>: runs the scenario's default schedule n times and prints the distinct
// (trace, enabled sets) signatures - the determinism self-test of the scheduler harness.
func init() {
	ExtraCommands["c12dbg"] = func(args []string) int {
		if len(args) < 1 {
			return 2
		}
		n := 200
		if len(args) > 1 {
			fmt.Sscan(args[1], &n)
		}
		for _, sc := range c12Scenarios(false) {
			if sc.Name != args[0] {
				continue
			}
			seen := map[string]int{}
			for i := 0; i < n; i++ {
				ex, err := c12Run(sc, nil)
				if err != nil {
					fmt.Fprintln(os.Stderr, err)
					return 2
				}
				sig := fmt.Sprint(ex.s.Trace, ex.s.Enabled, ex.werr)
				for _, t := range ex.s.Threads() {
					sig += fmt.Sprint("|panic=", t.Panic)
				}
				seen[sig]++
			}
			for k, v := range seen {
				fmt.Println(v, "x", k)
			}
			return 0
		}
		return 2
	}
}
