//go:build verif

package mc

import (
	"fmt"

	u "github.com/utreexo/utreexo"
	"vmc/ref"
)

const haveTranslate = true

// evalTranslate checks translatePos on node (r,off) of an R-row forest: translating to a taller
// forest and back preserves (row, offset).
func evalTranslate(R, r uint8, off, p uint64) string {
	for _, to := range []int{int(R), int(R) + 1, int(R) + 3, 62, 63} {
		if to < int(R) || to > 63 {
			continue
		}
		want := ref.PosOf(r, off, uint8(to))
		if got := u.VerifTranslatePos(p, R, uint8(to)); got != want {
			return fmt.Sprintf("translatePos(%d,%d->%d): want %d got %d", p, R, to, want, got)
		}
		if got := u.VerifTranslatePos(want, uint8(to), R); got != p {
			return fmt.Sprintf("translatePos(%d,%d->%d): want %d got %d", want, to, R, p, got)
		}
	}
	return ""
}
