package mc

func tallFamily(c *Ctx, prop string) {}
