package mc

import (
	"fmt"
	"runtime/debug"
	"sync/atomic"
)

// alignedUnions returns every non-empty union of at most maxParts pairwise disjoint aligned blocks
// of slots [a, a+2^h) (a multiple of 2^h, inside one tree of an N-leaf forest; h = 0 gives single
// leaves), each as a sorted slot list, without duplicates.
func alignedUnions(N, maxParts int) [][]int {
	type blk struct{ a, n int }
	var blocks []blk
	// trees of N
	a := 0
	for h := 30; h >= 0; h-- {
		if N&(1<<uint(h)) == 0 {
			continue
		}
		for hh := 0; hh <= h; hh++ {
			for b := a; b+(1<<uint(hh)) <= a+(1<<uint(h)); b += 1 << uint(hh) {
				blocks = append(blocks, blk{b, 1 << uint(hh)})
			}
		}
		a += 1 << uint(h)
	}
	seen := map[string]bool{}
	var out [][]int
	var rec func(start int, cur []blk)
	rec = func(start int, cur []blk) {
		if len(cur) > 0 {
			var x []int
			for _, b := range cur {
				for i := b.a; i < b.a+b.n; i++ {
					x = append(x, i)
				}
			}
			sortInts(x)
			k := fmt.Sprint(x)
			if !seen[k] {
				seen[k] = true
				out = append(out, x)
			}
		}
		if len(cur) == maxParts {
			return
		}
		for i := start; i < len(blocks); i++ {
			ok := true
			for _, b := range cur {
				if blocks[i].a < b.a+b.n && b.a < blocks[i].a+blocks[i].n {
					ok = false
					break
				}
			}
			if ok {
				rec(i+1, append(cur, blocks[i]))
			}
		}
	}
	rec(0, nil)
	return out
}

func sortInts(x []int) {
	for i := 1; i < len(x); i++ {
		for j := i; j > 0 && x[j] < x[j-1]; j-- {
			x[j], x[j-1] = x[j-1], x[j]
		}
	}
}

// tallFamily: forests of 16..65 leaves (rows 4..7, positions > 127), where the unstructured BFS
// cannot go. N leaves are added in one block, then one block deletes a set from a closed
// structured family and adds k in {0,1,3} leaves, then that block is undone. Exhaustive over the
// family. The oracle is the one of the calling property.
func tallFamily(c *Ctx, prop string) {
	defer c.Phase("structured hist families (tall.go)")()
	var or HistOracle
	insts := stdInsts([]uint8{0, 63}, []string{"all"})
	switch prop {
	case "C01":
		or = HistOracle{Roots: true, Prop: prop}
		insts = stdInsts([]uint8{0, 7, 8, 63}, []string{"all", "none"})
	case "C02":
		or = HistOracle{Proofs: true, ProofSets: "tall", Prop: prop}
	case "C06":
		or = HistOracle{Roots: true, Proofs: true, Lookups: true, ProofSets: "tall", Prop: prop, OnlyAfter: "undo"}
		insts = insts[1:]
	case "C10":
		or = HistOracle{Lookups: true, Prop: prop}
	case "C17":
		// argument/result snapshots ride on the C02 oracle's calls (Prove, Verify, Modify, Undo)
		or = HistOracle{Roots: true, Proofs: true, ProofSets: "tall", Prop: "C02"}
	default:
		return
	}
	fam := &HistFamily{Nmax: 128, Insts: insts, Or: or, PermLimit: 2, UndoBud: 1}
	type run struct {
		hist     []Op
		undoOnly bool // the history without the final undo is another run's
	}
	var runs []run
	for _, N := range []int{16, 17, 31, 32, 33, 63, 64, 65} {
		seen := map[string]bool{}
		var sets [][]int
		add := func(s []int) {
			if len(s) == 0 {
				return
			}
			k := fmt.Sprint(s)
			if !seen[k] {
				seen[k] = true
				sets = append(sets, s)
			}
		}
		for i := 0; i < N; i++ {
			add([]int{i})
		}
		for i := 0; i+1 < N; i += 2 {
			add([]int{i, i + 1})
		}
		for i := 0; i < N; i += 7 {
			for j := i + 7; j < N; j += 7 {
				add([]int{i, j})
			}
		}
		for h := uint(1); (1 << h) <= N; h++ {
			for a := 0; a+(1<<h) <= N; a += 1 << h {
				var s []int
				for x := a; x < a+(1<<h); x++ {
					s = append(s, x)
				}
				add(s)
				if len(s) > 2 {
					add(s[1:])        // all but the first leaf of the subtree
					add(s[:len(s)-1]) // all but the last
				}
			}
		}
		lim := N
		if lim > 32 {
			lim = 32
		}
		for i := 0; i < lim; i++ {
			for j := i + 1; j < lim; j++ {
				var s []int
				for x := 0; x < lim; x++ {
					if x != i && x != j {
						s = append(s, x)
					}
				}
				add(s)
			}
		}
		var all []int
		for x := 0; x < N; x++ {
			all = append(all, x)
		}
		add(all)
		add(all[1:])
		for _, s := range sets {
			for _, k := range []int{0, 1, 3} {
				runs = append(runs, run{hist: []Op{{Kind: "block", Adds: N}, {Kind: "block", Dels: s, Adds: k}}})
			}
		}
	}
	if !c.Thorough() {
		runs = runs[:0] // quick tier: only the medium family below
	}
	// medium family: 11..13 leaves with irregular deletion patterns, three blocks deep:
	// [add N][delete S, add k][delete T], S = every subset of size <= 3 (quick: <= 2) and every
	// subset of the window of slots 2..9, k in {0,1,3}, T = nothing, every single live leaf, every
	// pair of neighbouring live leaves
	medNs := []int{11, 12, 13}
	maxS := 3
	if !c.Thorough() {
		medNs, maxS = []int{12}, 2
	}
	for _, N := range medNs {
		seen := map[string]bool{}
		var sets [][]int
		add := func(x []int) {
			if len(x) > 0 && !seen[fmt.Sprint(x)] {
				seen[fmt.Sprint(x)] = true
				sets = append(sets, x)
			}
		}
		for a := 0; a < N; a++ {
			add([]int{a})
			for b := a + 1; b < N; b++ {
				add([]int{a, b})
				if maxS >= 3 {
					for d := b + 1; d < N; d++ {
						add([]int{a, b, d})
					}
				}
			}
		}
		for mask := 1; mask < 256; mask++ {
			var x []int
			for j := 0; j < 8; j++ {
				if mask&(1<<uint(j)) != 0 {
					x = append(x, 2+j)
				}
			}
			add(x)
		}
		for _, S := range sets {
			dead := map[int]bool{}
			for _, d := range S {
				dead[d] = true
			}
			for _, k := range []int{0, 1, 3} {
				var live []int
				for x := 0; x < N+k; x++ {
					if !dead[x] {
						live = append(live, x)
					}
				}
				base := []Op{{Kind: "block", Adds: N}, {Kind: "block", Dels: S, Adds: k}}
				runs = append(runs, run{hist: base})
				for j, a := range live {
					runs = append(runs, run{hist: append(append([]Op(nil), base...), Op{Kind: "block", Dels: []int{a}})})
					if j+1 < len(live) && c.Thorough() {
						runs = append(runs, run{hist: append(append([]Op(nil), base...), Op{Kind: "block", Dels: []int{a, live[j+1]}})})
					}
				}
			}
		}
	}
	// very tall family: 256..1025 leaves (rows 8..10; loop counters and shifts that are 8 bits wide
	// live here): whole aligned halves and quarters, a leaf that climbed to row 8 and is then
	// deleted, additions over the emptied root, and the undo of each
	vtNs := []int{255, 512}
	if c.Thorough() {
		vtNs = []int{255, 256, 257, 511, 512, 513, 1024, 1025}
	}
	vtStart := len(runs)
	for _, N := range vtNs {
		p2 := 1
		for p2*2 <= N {
			p2 *= 2
		}
		rng := func(a, b int) []int {
			var x []int
			for i := a; i < b; i++ {
				x = append(x, i)
			}
			return x
		}
		half, quarter := p2/2, p2/4
		for _, S := range [][]int{rng(0, half), rng(half, p2), rng(quarter, half), rng(0, p2), {0}, {half}, rng(1, half), rng(half, p2-1)} {
			for _, k := range []int{0, 1, 3} {
				base := []Op{{Kind: "block", Adds: N}, {Kind: "block", Dels: S, Adds: k}}
				runs = append(runs, run{hist: base})
				// then delete the first / the last leaf that is still alive (the bottom of a subtree
				// that moved up a row)
				if len(S) > 1 && len(S) < N {
					dead := map[int]bool{}
					for _, d := range S {
						dead[d] = true
					}
					first, last := -1, -1
					for x := 0; x < N; x++ {
						if !dead[x] {
							if first < 0 {
								first = x
							}
							last = x
						}
					}
					for _, t := range []int{first, last} {
						if t >= 0 {
							runs = append(runs, run{hist: append(append([]Op(nil), base...), Op{Kind: "block", Dels: []int{t}})})
						}
					}
				}
				// then delete the lone survivor of a half (it climbed to the half's root row)
				if len(S) == half-1 {
					surv := 0
					if S[0] == half {
						surv = p2 - 1
					}
					runs = append(runs, run{hist: append(append([]Op(nil), base...), Op{Kind: "block", Dels: []int{surv}, Adds: 1})})
				}
			}
		}
	}
	vtRuns := len(runs) - vtStart
	// aligned-union family: every union of up to three disjoint aligned blocks (whole subtrees and
	// single leaves mixed) deleted in one block, then k additions
	auNs := []int{11, 12}
	if c.Thorough() {
		auNs = []int{11, 12, 13, 16, 20}
	}
	for _, N := range auNs {
		// additions: none, one, up to the next power of two (overwrites every empty root on the
		// way) and one more (a new row)
		up := 1
		for up < N {
			up *= 2
		}
		ks := []int{0, 1}
		if up-N > 1 {
			ks = append(ks, up-N)
		}
		ks = append(ks, up-N+1)
		for _, S := range alignedUnions(N, 3) {
			for _, k := range ks {
				runs = append(runs, run{hist: []Op{{Kind: "block", Adds: N}, {Kind: "block", Dels: S, Adds: k}}})
			}
		}
	}
	c.Cov.Bound["aligned_unions.N"] = fmt.Sprint(auNs)
	// chain family: long chains of small blocks (a sliding population, like a UTXO set): every
	// block adds a leaves and deletes d live leaves chosen by a fixed policy (oldest, newest,
	// every other, middle); every prefix of every chain is a run (oracle after each block)
	chainLen := 24
	if c.Thorough() {
		chainLen = 48
	}
	nChains := 0
	for _, a := range []int{1, 2, 3} {
		for _, d := range []int{1, 2, 3} {
			for _, policy := range []string{"oldest", "newest", "alternate", "middle"} {
				for _, warm := range []int{0, 5} {
					var hist []Op
					var live []int
					n := 0
					if warm > 0 {
						hist = append(hist, Op{Kind: "block", Adds: warm})
						for i := 0; i < warm; i++ {
							live = append(live, i)
						}
						n = warm
					}
					for b := 0; b < chainLen; b++ {
						var dels []int
						for k := 0; k < d && len(live) > 0; k++ {
							idx := 0
							switch policy {
							case "newest":
								idx = len(live) - 1
							case "alternate":
								if (b+k)%2 == 1 {
									idx = len(live) - 1
								}
							case "middle":
								idx = len(live) / 2
							}
							dels = append(dels, live[idx])
							live = append(live[:idx], live[idx+1:]...)
						}
						sortInts(dels)
						hist = append(hist, Op{Kind: "block", Dels: dels, Adds: a})
						for i := 0; i < a; i++ {
							live = append(live, n+i)
						}
						n += a
						if b%2 == 1 || b == chainLen-1 {
							runs = append(runs, run{hist: append([]Op(nil), hist...)})
						}
					}
					nChains++
				}
			}
		}
	}
	// gap family: 21 (thorough: also 27, 37) leaves, an interval deleted, then blocks that delete
	// the neighbours of the growing gap; every history is also undone all the way back, one undo
	// at a time, with the oracle after every undo (up to four undos in a row)
	gapStart := len(runs)
	gapNs, gapW, gapDepth := []int{21}, 3, 2
	heavyOracle := prop == "C02" || prop == "C06" || prop == "C17" // proofs of many subsets per state
	if c.Thorough() {
		gapNs, gapW, gapDepth = []int{21, 27, 37}, 6, 3
		if heavyOracle {
			gapNs, gapW = []int{21, 27}, 5
		}
	}
	for _, N := range gapNs {
		for _, h := range gapHists(N, gapW, []int{0, 2}, gapDepth, nil, false) {
			runs = append(runs, run{hist: h})
			for u := 2; u < len(h); u++ {
				hu := append([]Op(nil), h...)
				for j := 1; j < u; j++ {
					hu = append(hu, Op{Kind: "undo"})
				}
				runs = append(runs, run{hu, true}) // the run loop appends the last undo itself
			}
		}
	}
	c.Cov.Bound["gap_family"] = fmt.Sprintf("N=%v interval width<=%d, %d neighbour blocks, undone completely; %d runs", gapNs, gapW, gapDepth-1, len(runs)-gapStart)
	// two-deletion-block family: every [add N][delete S][delete T, add k] (3^N assignments), and its undo(s)
	tdN := 7
	if c.Thorough() {
		tdN = 9
		if heavyOracle {
			tdN = 8
		}
	}
	tdStart := len(runs)
	for _, h := range twoDelHists(tdN, []int{0, 1}, nil, false) {
		runs = append(runs, run{hist: h})
		runs = append(runs, run{append(append([]Op(nil), h...), Op{Kind: "undo"}), true})
	}
	c.Cov.Bound["two_deletion_blocks"] = fmt.Sprintf("N=%d, every disjoint non-empty S,T; %d runs", tdN, len(runs)-tdStart)
	// multi-tree family (as in the light-client engine): 14 (thorough: 15, 28, 30) leaves in three or four trees; the
	// second block takes from every tree independently nothing / its first leaf / its last leaf / all but the first /
	// everything and adds 0..3 leaves; each history also undone
	mtNs, mtKs := []int{14}, []int{0, 2, 3}
	if c.Thorough() {
		mtNs, mtKs = []int{14, 15, 28, 30}, []int{0, 1, 2, 3}
		if heavyOracle {
			mtNs = []int{14, 15}
		}
	}
	mtStart := len(runs)
	for _, N := range mtNs {
		for _, S := range multiTreeSets(N) {
			for _, k := range mtKs {
				h := []Op{{Kind: "block", Adds: N}, {Kind: "block", Dels: S, Adds: k}}
				runs = append(runs, run{hist: h}) // the run loop also evaluates h followed by its undo
			}
		}
	}
	c.Cov.Bound["multi_tree"] = fmt.Sprintf("N=%v, 5^trees deletion sets, additions %v, each undone; %d runs", mtNs, mtKs, len(runs)-mtStart)
	// three very long chains (300 blocks; only the final state and its undo are checked): 8-bit block
	// or deletion counters wrap here
	for _, policy := range []string{"oldest", "newest", "middle"} {
		hist := []Op{{Kind: "block", Adds: 4}}
		live := []int{0, 1, 2, 3}
		n := 4
		for b := 1; b < 300; b++ {
			var dels []int
			for k := 0; k < 2 && len(live) > 1; k++ {
				idx := 0
				switch policy {
				case "newest":
					idx = len(live) - 1
				case "middle":
					idx = len(live) / 2
				}
				dels = append(dels, live[idx])
				live = append(live[:idx], live[idx+1:]...)
			}
			sortInts(dels)
			hist = append(hist, Op{Kind: "block", Dels: dels, Adds: 2})
			live = append(live, n, n+1)
			n += 2
		}
		runs = append(runs, run{hist: hist})
	}
	c.Cov.Bound["long_chains"] = "3 chains of 300 blocks (final state and its undo)"
	c.Cov.Bound["chains"] = fmt.Sprintf("%d chains of %d blocks", nChains, chainLen)
	c.Cov.Bound["very_tall.N"] = fmt.Sprint(vtNs)
	c.Cov.Bound["very_tall.runs"] = vtRuns
	c.Cov.Bound["medium.N"] = fmt.Sprint(medNs)
	c.Cov.Bound["tall.N"] = "16,17,31,32,33,63,64,65 (thorough only)"
	c.Cov.Bound["tall.runs"] = len(runs)
	var evals, done int64
	ok := parallelFor(c, len(runs), func(i int) {
		h := runs[i].hist
		for _, hist := range [][]Op{h, append(append([]Op(nil), h...), Op{Kind: "undo"})} {
			hist := hist
			if (or.OnlyAfter == "undo" || runs[i].undoOnly) && hist[len(hist)-1].Kind != "undo" {
				continue
			}
			func() {
				defer func() {
					if r := recover(); r != nil {
						c.Col.Add(panicViolation(prop, r, debug.Stack(), mkCase("hist", histPayload{Fam: *fam, Hist: hist}), histStr(hist)))
					}
				}()
				x := NewExec(prop, func() Case { return mkCase("hist", histPayload{Fam: *fam, Hist: hist}) })
				is, md, ok := fam.run(x, hist)
				if ok {
					atomic.AddInt64(&evals, fam.observe(x, is, md, true))
				}
				x.CheckHeld()
				c.Col.Add(x.Viol...)
				for _, n := range x.Notes {
					c.Col.Note(n)
				}
			}()
			atomic.AddInt64(&done, 1)
		}
		if i%997 == 0 {
			c.Cov.Sample("tall: " + histStr(h))
		}
	})
	if !ok {
		c.Cov.NotExhaustive("deadline reached in the tall-forest family")
	}
	c.Cov.AddStates(done)
	c.Cov.AddTransitions(done)
	c.Cov.AddEvals(evals)
	c.Cov.AddNontrivial(done)
	c.Cov.SetExtra("tall_family_runs", done)
}

// multiTreeSets: every deletion set that takes from each tree of an N-leaf forest independently nothing, its first
// leaf, its last leaf, all but its first leaf, or the whole tree (the empty set excluded).
func multiTreeSets(N int) [][]int {
	type tr struct{ a, n int }
	var trees []tr
	for a, h := 0, 30; h >= 0; h-- {
		if N&(1<<uint(h)) != 0 {
			trees = append(trees, tr{a, 1 << uint(h)})
			a += 1 << uint(h)
		}
	}
	total := 1
	for range trees {
		total *= 5
	}
	seen := map[string]bool{}
	var out [][]int
	for code := 1; code < total; code++ {
		var S []int
		cc := code
		for _, t := range trees {
			ch := cc % 5
			cc /= 5
			switch ch {
			case 1:
				S = append(S, t.a)
			case 2:
				S = append(S, t.a+t.n-1)
			case 3:
				for i := 1; i < t.n; i++ {
					S = append(S, t.a+i)
				}
			case 4:
				for i := 0; i < t.n; i++ {
					S = append(S, t.a+i)
				}
			}
		}
		if k := fmt.Sprint(S); len(S) > 0 && !seen[k] {
			seen[k] = true
			out = append(out, S)
		}
	}
	return out
}

// gapHists: the gap family - irregular, non-aligned deletion patterns on a forest of N leaves,
// several blocks deep. Block 1 adds N leaves (remembering remFirst). Block 2 deletes one contiguous
// interval of slots of width 1..w (every start) and adds k leaves (k from ks). Every later block
// (up to depth blocks after the first) deletes a set of live leaves next to the gap the earlier
// deletions left - the live neighbour on the left, the one on the right, both, the two on the left,
// the two on the right - and adds k leaves. Neighbours of a gap are the leaves that moved up when
// their siblings went away, so these chains walk a leaf up the tree block by block. Every history
// of every depth 1..depth is returned (remAdds: later additions are all remembered).
func gapHists(N, w int, ks []int, depth int, remFirst []int, remAdds bool) [][]Op {
	var out [][]Op
	remOf := func(k int) []int {
		r := []int{}
		if remAdds {
			for i := 0; i < k; i++ {
				r = append(r, i)
			}
		}
		return r
	}
	var rec func(hist []Op, live []int, n, g, left int)
	rec = func(hist []Op, live []int, n, g, left int) {
		out = append(out, hist)
		if left == 0 {
			return
		}
		// g = index in live of the first live leaf to the right of the gap
		var opts [][]int
		at := func(i int) (int, bool) {
			if i >= 0 && i < len(live) {
				return i, true
			}
			return 0, false
		}
		addOpt := func(idx ...int) {
			var o []int
			for _, i := range idx {
				j, ok := at(i)
				if !ok {
					return
				}
				o = append(o, j)
			}
			opts = append(opts, o)
		}
		addOpt(g - 1)
		addOpt(g)
		addOpt(g-1, g)
		addOpt(g-2, g-1)
		addOpt(g, g+1)
		for _, o := range opts {
			for _, k := range ks {
				dead := map[int]bool{}
				var dels []int
				for _, i := range o {
					dead[i] = true
					dels = append(dels, live[i])
				}
				var nl []int
				ng := -1
				for i, x := range live {
					if dead[i] {
						if ng < 0 {
							ng = len(nl)
						}
						continue
					}
					nl = append(nl, x)
				}
				for i := 0; i < k; i++ {
					nl = append(nl, n+i)
				}
				h := append(append([]Op(nil), hist...), Op{Kind: "block", Dels: dels, Adds: k, Rem: remOf(k)})
				rec(h, nl, n+k, ng, left-1)
			}
		}
	}
	for width := 1; width <= w; width++ {
		for a := 0; a+width <= N; a++ {
			for _, k := range ks {
				var dels, live []int
				for x := 0; x < N; x++ {
					if x >= a && x < a+width {
						dels = append(dels, x)
					} else {
						live = append(live, x)
					}
				}
				for i := 0; i < k; i++ {
					live = append(live, N+i)
				}
				h := []Op{{Kind: "block", Adds: N, Rem: remFirst}, {Kind: "block", Dels: dels, Adds: k, Rem: remOf(k)}}
				rec(h, live, N+k, a, depth-1)
			}
		}
	}
	return out
}

// twoDelHists: every history [add N][delete S][delete T, add k] with S and T non-empty and disjoint
// (each of the N leaves survives, goes in the second block or goes in the third: 3^N assignments).
func twoDelHists(N int, ks []int, remFirst []int, remAdds bool) [][]Op {
	var out [][]Op
	total := 1
	for i := 0; i < N; i++ {
		total *= 3
	}
	for code := 0; code < total; code++ {
		var S, T []int
		c := code
		for i := 0; i < N; i++ {
			switch c % 3 {
			case 1:
				S = append(S, i)
			case 2:
				T = append(T, i)
			}
			c /= 3
		}
		if len(S) == 0 || len(T) == 0 {
			continue
		}
		for _, k := range ks {
			r := []int{}
			if remAdds {
				for i := 0; i < k; i++ {
					r = append(r, i)
				}
			}
			out = append(out, []Op{{Kind: "block", Adds: N, Rem: remFirst}, {Kind: "block", Dels: S, Rem: []int{}}, {Kind: "block", Dels: T, Adds: k, Rem: r}})
		}
	}
	return out
}

// manyRootsFamily: forests with 16..18 trees (2^k-1 leaves for k = 16, 17, 18; thorough also 2^17+2^16-1):
// bit masks and counters indexed by root number that are 8 or 16 bits wide go wrong here. The
// smallest trees are emptied, additions write over the empty roots (carrying up through all
// trees for 2^k-1), and everything is undone block by block.
func manyRootsFamily(c *Ctx, prop string) {
	defer c.Phase("many-roots family")()
	var or HistOracle
	switch prop {
	case "C01":
		or = HistOracle{Roots: true, Prop: prop}
	case "C02":
		or = HistOracle{Proofs: true, ProofSets: "ends", Prop: prop}
	case "C06":
		or = HistOracle{Roots: true, Lookups: true, Proofs: true, ProofSets: "ends", Prop: prop}
	case "C10":
		or = HistOracle{Lookups: true, Prop: prop}
	default:
		return
	}
	insts := []InstCfg{{Kind: "pollard"}, {Kind: "map", Full: true, TR: 63}, {Kind: "map", Full: false, TR: 0, Mode: "even"}}
	if prop == "C01" {
		insts = append([]InstCfg{{Kind: "stump"}}, insts...)
	}
	fam := &HistFamily{Nmax: 1 << 20, Insts: insts, Or: or, UndoBud: 3}
	Ns := []int{1<<17 - 1, 1<<17 + 2}
	if c.Thorough() {
		Ns = []int{1<<16 - 1, 1<<17 - 1, 1<<17 + 2, 1<<18 - 1, 1<<17 + 1<<16 - 1}
	}
	c.Cov.Bound["many_roots.N"] = fmt.Sprint(Ns)
	var hists [][]Op
	for _, N := range Ns {
		// the one-leaf tree; the two smallest trees; the second smallest tree only
		// ... and two early leaves of the biggest tree (17+ rows below its root for N > 2^17)
		for _, S := range [][]int{{N - 1}, {N - 3, N - 2, N - 1}, {N - 3, N - 2}, {5, 1<<15 + 5}} {
			for _, k := range []int{1, 2} {
				h := []Op{{Kind: "block", Adds: N}, {Kind: "block", Dels: S}, {Kind: "block", Adds: k}}
				hists = append(hists, h, append(append([]Op(nil), h...), Op{Kind: "undo"}), append(append([]Op(nil), h...), Op{Kind: "undo"}, Op{Kind: "undo"}))
			}
			// deletion and additions in one block
			h := []Op{{Kind: "block", Adds: N}, {Kind: "block", Dels: S, Adds: 2}}
			hists = append(hists, h, append(append([]Op(nil), h...), Op{Kind: "undo"}))
		}
	}
	var evals, done int64
	cc := *c // a run holds a forest of ~260 000 nodes per instance plus the model: bound the memory
	if cc.Workers > 6 {
		cc.Workers = 6
	}
	ok := parallelFor(&cc, len(hists), func(i int) {
		hist := hists[i]
		defer func() {
			if r := recover(); r != nil {
				c.Col.Add(panicViolation(prop, r, debug.Stack(), mkCase("hist", histPayload{Fam: *fam, Hist: hist}), histStr(hist)))
			}
		}()
		x := NewExec(prop, func() Case { return mkCase("hist", histPayload{Fam: *fam, Hist: hist}) })
		is, md, ok := fam.run(x, hist)
		if ok {
			atomic.AddInt64(&evals, fam.observe(x, is, md, true))
		}
		x.CheckHeld()
		c.Col.Add(x.Viol...)
		atomic.AddInt64(&done, 1)
	})
	if !ok {
		c.Cov.NotExhaustive("deadline reached in the many-roots family")
	}
	c.Cov.AddStates(done)
	c.Cov.AddTransitions(done)
	c.Cov.AddEvals(evals)
	c.Cov.AddNontrivial(done)
	c.Cov.SetExtra("many_roots_runs", done)
}
