package mc

import (
	"encoding/json"
	"fmt"
	"math/big"
	"sort"

	u "github.com/utreexo/utreexo"
	"vmc/ref"
)

// E5 `geom`: exhaustive enumeration of the exported position arithmetic (C16) against the
// reference geometry (row r of an R-row forest starts at 2^(R+1)-2^(R+1-r); node (r,k) has
// children (r-1,2k),(r-1,2k+1)). A case is one function applied to one argument tuple.

type geomCase struct {
	Fn string   `json:"fn"`
	A  []uint64 `json:"args"`
	T  []uint64 `json:"targets,omitempty"`
}

// evalGeom evaluates one case; it returns "" when the code agrees with the reference and a
// description of the disagreement otherwise.
func evalGeom(g geomCase) (detail string) {
	defer func() {
		if r := recover(); r != nil {
			detail = fmt.Sprintf("PANIC: %v", r)
		}
	}()
	switch g.Fn {
	case "node": // args: R, r, off  -- Parent/LeftChild/RightChild/DetectRow/ParentMany/ChildMany on node (r,off)
		R, r, off := uint8(g.A[0]), uint8(g.A[1]), g.A[2]
		p := ref.PosOf(r, off, R)
		if got := u.DetectRow(p, R); got != r {
			return fmt.Sprintf("DetectRow(%d,%d): want %d got %d", p, R, r, got)
		}
		if r < R {
			want := ref.PosOf(r+1, off/2, R)
			if got := u.Parent(p, R); got != want {
				return fmt.Sprintf("Parent(%d,%d): want %d got %d", p, R, want, got)
			}
		}
		if r > 0 {
			lc, rc := ref.PosOf(r-1, off*2, R), ref.PosOf(r-1, off*2+1, R)
			if got := u.LeftChild(p, R); got != lc {
				return fmt.Sprintf("LeftChild(%d,%d): want %d got %d", p, R, lc, got)
			}
			if got := u.RightChild(p, R); got != rc {
				return fmt.Sprintf("RightChild(%d,%d): want %d got %d", p, R, rc, got)
			}
			if got := u.Parent(lc, R); got != p {
				return fmt.Sprintf("Parent(LeftChild(%d)) = %d", p, got)
			}
			if got := u.Parent(rc, R); got != p {
				return fmt.Sprintf("Parent(RightChild(%d)) = %d", p, got)
			}
		}
		for rise := 0; rise <= int(R)+2 && rise < 256; rise++ {
			got, err := u.ParentMany(p, uint8(rise), R)
			if int(r)+rise <= int(R) {
				want := ref.PosOf(r+uint8(rise), off>>uint(rise), R)
				if err != nil || got != want {
					return fmt.Sprintf("ParentMany(%d,%d,%d): want %d got %d err %v", p, rise, R, want, got, err)
				}
			} else if rise > int(R) && err == nil {
				return fmt.Sprintf("ParentMany(%d,%d,%d): no error although rise exceeds the rows", p, rise, R)
			}
		}
		for drop := 0; drop <= int(R)+2 && drop < 256; drop++ {
			got, err := u.ChildMany(p, uint8(drop), R)
			if drop <= int(r) {
				want := ref.PosOf(r-uint8(drop), off<<uint(drop), R)
				if err != nil || got != want {
					return fmt.Sprintf("ChildMany(%d,%d,%d): want %d got %d err %v", p, drop, R, want, got, err)
				}
			} else if drop > int(R) && err == nil {
				return fmt.Sprintf("ChildMany(%d,%d,%d): no error although drop exceeds the rows", p, drop, R)
			}
		}
		if d := evalTranslate(R, r, off, p); d != "" {
			return d
		}
	case "leaves": // args: n -- TreeRows, RootPositions
		n := g.A[0]
		R := ref.RowsFor(n)
		if got := u.TreeRows(n); got != R {
			return fmt.Sprintf("TreeRows(%d): want %d got %d", n, R, got)
		}
		if R > 63 {
			return ""
		}
		for _, TR := range []int{int(R), int(R) + 1, int(R) + 2, 62, 63} {
			if TR > 63 || TR < int(R) {
				continue
			}
			var want []uint64
			var a uint64
			for h := 63; h >= 0; h-- {
				if n&(uint64(1)<<uint(h)) != 0 {
					want = append(want, ref.PosOf(uint8(h), a>>uint(h), uint8(TR)))
					a += uint64(1) << uint(h)
				}
			}
			got := u.RootPositions(n, uint8(TR))
			if !eqT(got, want) {
				return fmt.Sprintf("RootPositions(%d,%d): want %v got %v", n, TR, want, got)
			}
		}
	case "offset": // args: n, tree index, tree a, tree h, r, off  -- DetectOffset on node (r,off) of that tree
		n, tree, a, h, r, off := g.A[0], g.A[1], g.A[2], uint8(g.A[3]), uint8(g.A[4]), g.A[5]
		R := ref.RowsFor(n)
		p := ref.PosOf(r, off, R)
		t, bl, bits, err := u.DetectOffset(p, n)
		bl2 := h - r
		rel := off - (a >> r)
		var wantBits uint64
		if bl2 > 0 {
			mask := (uint64(1) << bl2) - 1
			// the path from the root to the node, most significant step first, where every
			// step but the last is complemented (roots point to children, nodes to nieces)
			wantBits = (rel ^ (mask &^ 1)) & mask
			bits &= mask
		} else {
			bits = 0
		}
		if err != nil || uint64(t) != tree || bl != bl2 || bits != wantBits {
			return fmt.Sprintf("DetectOffset(%d,%d): want tree %d branchLen %d bits %b, got %d %d %b err %v", p, n, tree, bl2, wantBits, t, bl, bits, err)
		}
	case "proofpos": // args: n, TR ; T: sorted non-nested target positions in TR coordinates
		n, TR := g.A[0], uint8(g.A[1])
		needWant, compWant := geomProofPositions(g.T, n, TR)
		in := append([]uint64(nil), g.T...)
		need, comp := u.ProofPositions(in, n, TR)
		if !eqT(in, g.T) {
			return fmt.Sprintf("ProofPositions(%v,%d,%d) modified its argument: %v", g.T, n, TR, in)
		}
		ns := append([]uint64(nil), need...)
		cs := append([]uint64(nil), comp...)
		sort.Slice(ns, func(i, j int) bool { return ns[i] < ns[j] })
		sort.Slice(cs, func(i, j int) bool { return cs[i] < cs[j] })
		if !eqT(ns, needWant) {
			return fmt.Sprintf("ProofPositions(%v,%d,%d) needed: want %v got %v", g.T, n, TR, needWant, need)
		}
		if !eqT(cs, compWant) {
			return fmt.Sprintf("ProofPositions(%v,%d,%d) computable: want %v got %v", g.T, n, TR, compWant, comp)
		}
	default:
		return "unknown geom case " + g.Fn
	}
	return ""
}

// geomProofPositions: needed = siblings of non-root path positions that are neither targets nor
// computable; computable = the strict ancestors of the targets up to and including their roots.
// Pure geometry: the trees are those of the binary digits of n, laid out in TR rows.
func geomProofPositions(targets []uint64, n uint64, TR uint8) (needed, computable []uint64) {
	type rc struct {
		r   uint8
		off uint64
	}
	isRoot := func(x rc) bool {
		var a uint64
		for h := 63; h >= 0; h-- {
			if n&(uint64(1)<<uint(h)) != 0 {
				if uint8(h) == x.r && a>>uint(h) == x.off {
					return true
				}
				a += uint64(1) << uint(h)
			}
		}
		return false
	}
	path := map[rc]bool{}
	anc := map[rc]bool{}
	for _, t := range targets {
		r, off, ok := ref.RowOffOf(t, TR)
		if !ok {
			continue
		}
		x := rc{r, off}
		path[x] = true
		for !isRoot(x) && x.r < TR {
			x = rc{x.r + 1, x.off / 2}
			path[x] = true
			anc[x] = true
		}
	}
	for x := range path {
		if isRoot(x) {
			continue
		}
		s := rc{x.r, x.off ^ 1}
		if !path[s] {
			needed = append(needed, ref.PosOf(s.r, s.off, TR))
		}
	}
	for x := range anc {
		computable = append(computable, ref.PosOf(x.r, x.off, TR))
	}
	sort.Slice(needed, func(i, j int) bool { return needed[i] < needed[j] })
	sort.Slice(computable, func(i, j int) bool { return computable[i] < computable[j] })
	return
}

func init() {
	Engines["geom"] = func(prop string, payload json.RawMessage) ([]Violation, error) {
		var g geomCase
		if err := json.Unmarshal(payload, &g); err != nil {
			return nil, err
		}
		if d := evalGeom(g); d != "" {
			return []Violation{{Prop: prop, Sig: geomSig(g), Detail: d, Case: Case{Engine: "geom", Payload: payload}}}, nil
		}
		return nil, nil
	}
	Checks["C16"] = checkC16
}

func geomSig(g geomCase) string {
	switch g.Fn {
	case "node":
		return "parent/child/row/translate arithmetic disagrees with the row geometry"
	case "leaves":
		return "TreeRows/RootPositions disagree with the binary digits of the leaf count"
	case "offset":
		return "DetectOffset disagrees with the tree/branch geometry"
	case "proofpos":
		return "ProofPositions disagrees with the path geometry"
	}
	return g.Fn
}

func checkC16(c *Ctx) {
	if !haveTranslate {
		fmt.Println("C16 needs the overlay build (vmcx); this binary was built without it")
		c.Cov.NotExhaustive("translatePos not reachable in this build")
	}
	c.Cov.Rule = "every exported position function is evaluated on an enumerated argument set and compared with the reference geometry: (node) all rows 0..Hsmall x all nodes, and for rows up to 63 a boundary grid of offsets {0,1,2,3,mid-1,mid,mid+1,w-3,w-2,w-1} per row, each with every rise/drop 0..R+2 and translation to R, R+1, R+3, 62, 63 and back; (leaves) every n<=2^Hn and the 2^k grid up to 2^64-1; (offset) DetectOffset on every node of every forest with n<=Noff and on a boundary grid of nodes (first/last/middle of rows 0, 1, h/2, h-1, h of every tree) of forests with 2^k-ish leaf counts up to 2^63; (proofpos) every non-nested target subset of every forest with n<=Npp in TR in {rows..rows+3,62,63}; non-trivial = cases above row 0 / with at least two trees / with at least two targets"
	Hsmall := pick(c, 11, 14)
	Hn := pick(c, 14, 20)
	Noff := pick(c, 600, 3000)
	Npp := pick(c, 10, 13)
	PPmax := pick(c, 5, 6) // max number of targets in proofpos subsets for the larger forests
	c.Cov.Bound["Hsmall"] = Hsmall
	c.Cov.Bound["leafcounts_exhaustive_to"] = fmt.Sprintf("2^%d", Hn)
	c.Cov.Bound["DetectOffset_n_max"] = Noff
	c.Cov.Bound["ProofPositions_n_max"] = Npp

	// self-test of the reference row starts against math/big for every (r,R)
	for R := uint(0); R <= 63; R++ {
		for r := uint(0); r <= R; r++ {
			a := new(big.Int).Lsh(big.NewInt(1), R+1)
			b := new(big.Int).Lsh(big.NewInt(1), R+1-r)
			a.Sub(a, b)
			if !a.IsUint64() || a.Uint64() != ref.RowStart(uint8(r), uint8(R)) {
				fmt.Printf("HARNESS ERROR: reference RowStart(%d,%d) disagrees with math/big\n", r, R)
				c.Cov.NotExhaustive("reference self-test failed")
				return
			}
		}
	}

	var cases []geomCase
	add := func(g geomCase) { cases = append(cases, g) }
	run := func() {
		res := make([]string, len(cases))
		ok := parallelFor(c, len(cases), func(i int) { res[i] = evalGeom(cases[i]) })
		if !ok {
			c.Cov.NotExhaustive("deadline")
		}
		for i, d := range res {
			g := cases[i]
			c.Cov.AddEvals(1)
			c.Cov.AddTransitions(1)
			nt := false
			switch g.Fn {
			case "node":
				nt = g.A[1] > 0
			case "leaves":
				nt = g.A[0]&(g.A[0]-1) != 0
			case "offset":
				nt = g.A[4] < g.A[3]
			case "proofpos":
				nt = len(g.T) > 1
			}
			if nt {
				c.Cov.AddNontrivial(1)
			}
			if d != "" {
				c.Col.Add(Violation{Prop: "C16", Sig: geomSig(g), Detail: d, Case: mkCase("geom", g)})
			}
		}
		if len(cases) > 0 {
			c.Cov.Sample(cases[len(cases)/2])
		}
		c.Cov.AddStates(int64(len(cases)))
		cases = cases[:0]
	}

	// (node)
	for R := 0; R <= 63; R++ {
		for r := 0; r <= R; r++ {
			wbits := uint(R - r)
			if R <= Hsmall {
				for off := uint64(0); off < uint64(1)<<wbits; off++ {
					add(geomCase{Fn: "node", A: []uint64{uint64(R), uint64(r), off}})
				}
				continue
			}
			w := uint64(1) << wbits
			seen := map[uint64]bool{}
			for _, o := range []uint64{0, 1, 2, 3, w/2 - 1, w / 2, w/2 + 1, w - 3, w - 2, w - 1, w / 3, 0x5555555555555555 & (w - 1), 0xAAAAAAAAAAAAAAAA & (w - 1)} {
				if o < w && !seen[o] {
					seen[o] = true
					add(geomCase{Fn: "node", A: []uint64{uint64(R), uint64(r), o}})
				}
			}
		}
	}
	run()
	// (leaves)
	for n := uint64(0); n <= uint64(1)<<uint(Hn); n++ {
		add(geomCase{Fn: "leaves", A: []uint64{n}})
	}
	for k := uint(Hn); k < 64; k++ {
		b := uint64(1) << k
		for _, n := range []uint64{b - 1, b, b + 1, b | 0x5555, b | (uint64(1) << (k / 2)), b | (b >> 1), b | (b - 1), (b - 1) &^ 1, b | 0xAAAAAAAAAAAAAAAA&(b-1)} {
			add(geomCase{Fn: "leaves", A: []uint64{n}})
		}
	}
	add(geomCase{Fn: "leaves", A: []uint64{^uint64(0)}})
	add(geomCase{Fn: "leaves", A: []uint64{^uint64(0) - 1}})
	run()
	// (offset)
	for n := uint64(1); n <= uint64(Noff); n++ {
		R := ref.RowsFor(n)
		var a uint64
		tree := uint64(0)
		for h := int(R); h >= 0; h-- {
			if n&(uint64(1)<<uint(h)) == 0 {
				continue
			}
			for r := 0; r <= h; r++ {
				for off := a >> uint(r); off < (a+(uint64(1)<<uint(h)))>>uint(r); off++ {
					add(geomCase{Fn: "offset", A: []uint64{n, tree, a, uint64(h), uint64(r), off}})
				}
			}
			a += uint64(1) << uint(h)
			tree++
		}
		if len(cases) > 1<<18 {
			run()
		}
	}
	run()
	// (offset, large): a boundary grid of nodes in every tree of large forests up to 63 rows
	for k := uint(10); k <= 63; k++ {
		b := uint64(1) << k
		for _, n := range []uint64{b - 1, b, b + 1, b | (b >> 1), b | 0x5, (b - 1) &^ 2, b | (b >> 3) | 1} {
			if n == 0 || n > uint64(1)<<63 {
				continue
			}
			var a uint64
			tree := uint64(0)
			for h := 63; h >= 0; h-- {
				if n&(uint64(1)<<uint(h)) == 0 {
					continue
				}
				rows := map[int]bool{0: true, 1: true, h / 2: true, h - 1: true, h: true}
				for r := range rows {
					if r < 0 || r > h {
						continue
					}
					first := a >> uint(r)
					width := uint64(1) << uint(h-r)
					for _, o := range []uint64{0, 1, width / 2, width - 2, width - 1} {
						if o < width {
							add(geomCase{Fn: "offset", A: []uint64{n, tree, a, uint64(h), uint64(r), first + o}})
						}
					}
				}
				a += uint64(1) << uint(h)
				tree++
			}
		}
		if len(cases) > 1<<18 {
			run()
		}
	}
	run()
	// (proofpos): all non-nested subsets of node positions of every forest n<=Npp. For n<=6 all
	// subsets of all nodes; beyond, subsets of up to PPmax nodes drawn from the leaves row and
	// every node, non-nested.
	// large target lists: exactly 256 and 65536 groups (a sibling pair, a lone leaf and lone even
	// leaves) move up from row 0 - per-row counters of 8 or 16 bits wrap here
	for _, k := range []uint{9, 17} {
		n := uint64(1)<<k + 4
		ts := []uint64{0, 1, 2}
		for x := uint64(4); x < uint64(1)<<k; x += 2 {
			ts = append(ts, x)
		}
		rows := ref.RowsFor(n)
		for _, TR := range []uint8{rows, 63} {
			tt := make([]uint64, len(ts))
			for i, t := range ts {
				tt[i], _ = ref.Translate(t, rows, TR)
			}
			add(geomCase{Fn: "proofpos", A: []uint64{n, uint64(TR)}, T: tt})
		}
	}
	for n := uint64(1); n <= uint64(Npp); n++ {
		R := ref.RowsFor(n)
		type nd struct {
			r   uint8
			off uint64
		}
		var nodes []nd
		var a uint64
		for h := int(R); h >= 0; h-- {
			if n&(uint64(1)<<uint(h)) == 0 {
				continue
			}
			for r := 0; r <= h; r++ {
				for off := a >> uint(r); off < (a+(uint64(1)<<uint(h)))>>uint(r); off++ {
					nodes = append(nodes, nd{uint8(r), off})
				}
			}
			a += uint64(1) << uint(h)
		}
		nested := func(x, y nd) bool { // x ancestor-or-equal of y or vice versa
			if x.r < y.r {
				x, y = y, x
			}
			return y.off>>(x.r-y.r) == x.off
		}
		trs := []uint8{R, R + 1, R + 2, R + 3, 62, 63}
		maxk := len(nodes)
		if n > 6 {
			maxk = PPmax
		}
		var rec func(start int, cur []nd)
		rec = func(start int, cur []nd) {
			if len(cur) > 0 {
				for _, TR := range trs {
					if TR > 63 {
						continue
					}
					ts := make([]uint64, len(cur))
					for i, x := range cur {
						ts[i] = ref.PosOf(x.r, x.off, TR)
					}
					sort.Slice(ts, func(i, j int) bool { return ts[i] < ts[j] })
					add(geomCase{Fn: "proofpos", A: []uint64{n, uint64(TR)}, T: ts})
				}
			}
			if len(cur) >= maxk {
				return
			}
			for i := start; i < len(nodes); i++ {
				okk := true
				for _, x := range cur {
					if nested(x, nodes[i]) {
						okk = false
						break
					}
				}
				if okk {
					rec(i+1, append(cur, nodes[i]))
				}
			}
		}
		rec(0, nil)
		if len(cases) > 1<<18 {
			run()
		}
	}
	run()
}
