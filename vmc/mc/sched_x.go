//go:build verif

package mc

import (
	"bytes"
	"context"
	"encoding/json"
	"fmt"
	"os"
	"os/exec"
	"sort"
	"strings"
	"sync"
	"sync/atomic"
	"time"

	u "github.com/utreexo/utreexo"
	vs "github.com/utreexo/utreexo/verifsync"
	"vmc/ref"
)

// E3 `sched`: stateless model checking of MapPollard under a cooperative scheduler (C12).
// Scheduling points: thread start/end, every RWMutex operation (through the verifsync shim that
// the vmcx build substitutes for "sync" in mappollard.go), every Nodes / CachedLeaves call
// (wrappers installed in the exported interface fields) and every Write to a reader's sink.
// All schedules with at most `bound` preemptions are explored by depth-first search over choice
// sequences (replay prefix, then default choice).

// ---- scenario description (also the replay payload) ----

type c12Query struct {
	Kind  string `json:"q"` // roots stump prove verify leafpos leafpositions gethash missing numleaves treerows write
	Slots []int  `json:"slots,omitempty"`
	Pos   uint64 `json:"pos,omitempty"`
}

type c12WOp struct {
	Kind string `json:"w"` // modify undo verify partialproof ingest prune read
	Dels []int  `json:"d,omitempty"`
	Adds int    `json:"a,omitempty"`
	Set  []int  `json:"s,omitempty"`
}

type c12Scenario struct {
	Name    string       `json:"name"`
	Full    bool         `json:"full"`
	TR      uint8        `json:"tr"`
	Mode    string       `json:"mode"` // partial: all | even | none
	Prep    []Op         `json:"prep"`
	Writer  []c12WOp     `json:"writer"`
	Readers [][]c12Query `json:"readers"`
	// Writer2: operations of a second mutating goroutine (arguments prepared from the same
	// pre-state as Writer's). With two mutators the oracle is: the outcome (errors and final
	// state) equals the sequential outcome of Writer;Writer2 or of Writer2;Writer.
	Writer2 []c12WOp `json:"writer2,omitempty"`
}

type c12Case struct {
	Sc       c12Scenario `json:"scenario"`
	Schedule []int       `json:"schedule"`
}

// ---- wrappers: scheduling point + lock discipline at every map access ----

type c12Harness struct {
	s    *vs.Sched
	lock *vs.RWMutex
	disc []string
}

func (h *c12Harness) access(write bool, what string) {
	if h.s == nil {
		return
	}
	if write && !h.lock.HeldW() {
		h.disc = append(h.disc, "map write without the write lock: "+what)
	} else if !write && !h.lock.HeldR() {
		h.disc = append(h.disc, "map read without a lock: "+what)
	}
	h.s.Point(nil)
}

type schedNodes struct {
	in u.NodesInterface
	h  *c12Harness
}

func (w *schedNodes) Get(k uint64) (u.Leaf, bool) { w.h.access(false, "Nodes.Get"); return w.in.Get(k) }
func (w *schedNodes) Put(k uint64, v u.Leaf)      { w.h.access(true, "Nodes.Put"); w.in.Put(k, v) }
func (w *schedNodes) Delete(k uint64)             { w.h.access(true, "Nodes.Delete"); w.in.Delete(k) }
func (w *schedNodes) Length() int                 { w.h.access(false, "Nodes.Length"); return w.in.Length() }
func (w *schedNodes) ForEach(fn func(uint64, u.Leaf) error) error {
	w.h.access(false, "Nodes.ForEach")
	return (&orderedNodes{w.in, false}).ForEach(fn)
}

type schedCached struct {
	in u.CachedLeavesInterface
	h  *c12Harness
}

func (w *schedCached) Get(k Hash) (uint64, bool) {
	w.h.access(false, "CachedLeaves.Get")
	return w.in.Get(k)
}
func (w *schedCached) Put(k Hash, v uint64) { w.h.access(true, "CachedLeaves.Put"); w.in.Put(k, v) }
func (w *schedCached) Delete(k Hash)        { w.h.access(true, "CachedLeaves.Delete"); w.in.Delete(k) }
func (w *schedCached) Length() int {
	w.h.access(false, "CachedLeaves.Length")
	return w.in.Length()
}
func (w *schedCached) ForEach(fn func(Hash, uint64) error) error {
	w.h.access(false, "CachedLeaves.ForEach")
	return (&orderedCached{w.in, false}).ForEach(fn)
}

type schedSink struct {
	buf bytes.Buffer
	h   *c12Harness
}

func (k *schedSink) Write(p []byte) (int, error) {
	if k.h.s != nil {
		k.h.s.Point(nil)
	}
	return k.buf.Write(p)
}

// ---- building instances and operations ----

// c12Build replays the preparation history and the first nw writer operations sequentially on a
// fresh instance (no scheduler attached) and returns it with the model.
type c12Inst struct {
	m    *u.MapPollard
	h    *c12Harness
	md   *histModel
	in   *inst
	fam  *HistFamily
	prep []Op
}

type c12Block struct {
	prev ref.State
	op   c12WOp
}

func c12New(sc c12Scenario) (*c12Inst, error) {
	cfg := InstCfg{Kind: "map", Full: sc.Full, TR: sc.TR, Mode: sc.Mode}
	fam := &HistFamily{Nmax: 64, Insts: []InstCfg{cfg}, Or: HistOracle{Prop: "substrate"}}
	x := NewExec("substrate", func() Case { return Case{} })
	insts, md, ok := fam.run(x, sc.Prep)
	if !ok {
		return nil, fmt.Errorf("preparation history failed: %v", x.Notes)
	}
	ci := &c12Inst{m: insts[0].m, md: md, in: insts[0], fam: fam, h: &c12Harness{}, prep: sc.Prep}
	ci.m.Nodes = &schedNodes{ci.m.Nodes, ci.h}
	ci.m.CachedLeaves = &schedCached{ci.m.CachedLeaves, ci.h}
	return ci, nil
}

// wcall is a prepared writer operation: arguments are computed from the model beforehand.
type wcall struct {
	op   c12WOp
	call func() error
}

// prepareWriter computes the arguments of every writer op from the model (which is advanced as
// if the ops were applied in order) and returns closures that perform them on ci.m.
func (ci *c12Inst) prepareWriter(ops []c12WOp) ([]wcall, error) {
	var out []wcall
	s := ci.md.s.Clone()
	tracked := append([]bool(nil), ci.in.tracked...)
	m := ci.m
	var blocks []c12Block
	for _, op := range ops {
		op := op
		L := ref.APILayout(s)
		switch op.Kind {
		case "modify":
			proof := L.Proof(op.Dels)
			dh := ref.Hashes(op.Dels)
			base := s.N()
			leaves := leavesFor(base, op.Adds, func(i int) bool { return ci.in.remembers(base + i) })
			out = append(out, wcall{op, func() error { return m.Modify(leaves, dh, proof) }})
			blocks = append(blocks, c12Block{s.Clone(), op})
			for _, d := range op.Dels {
				tracked[d] = false
			}
			for i := 0; i < op.Adds; i++ {
				tracked = append(tracked, ci.in.remembers(base+i))
			}
			s = s.Apply(op.Dels, op.Adds)
		case "undo":
			if len(blocks) == 0 {
				return nil, fmt.Errorf("undo without a preceding modify in the writer program")
			}
			b := blocks[len(blocks)-1]
			blocks = blocks[:len(blocks)-1]
			LP := ref.APILayout(b.prev)
			proof := LP.Proof(b.op.Dels)
			dh := ref.Hashes(b.op.Dels)
			prevRoots := append([]Hash(nil), LP.Roots...)
			adds := uint64(b.op.Adds)
			out = append(out, wcall{op, func() error { return m.Undo(adds, proof, dh, prevRoots) }})
			s = b.prev.Clone()
		case "verify":
			proof := L.Proof(op.Set)
			hs := ref.Hashes(op.Set)
			out = append(out, wcall{op, func() error { return m.Verify(hs, proof, true) }})
		case "partialproof":
			// supply exactly the hashes at the positions the forest reports missing (computed
			// sequentially on a replica by the caller through Set; here: all canonical hashes
			// that are not stored are looked up lazily at call time would race, so compute now)
			td := L.Targets(op.Set)
			hs := ref.Hashes(op.Set)
			miss := m.GetMissingPositions(append([]uint64(nil), td...))
			sort.Slice(miss, func(i, j int) bool { return miss[i] < miss[j] })
			var ph []Hash
			for _, p := range miss {
				ph = append(ph, L.At[p])
			}
			out = append(out, wcall{op, func() error { return m.VerifyPartialProof(td, hs, ph, true) }})
		case "ingest":
			proof := L.Proof(op.Set)
			hs := ref.Hashes(op.Set)
			out = append(out, wcall{op, func() error { return m.Ingest(hs, proof) }})
		case "badverify": // rejected: wrong leaf hash (error paths must release the lock too)
			proof := L.Proof(op.Set)
			hs := ref.Hashes(op.Set)
			hs[0] = ref.FreshHash(3)
			out = append(out, wcall{op, func() error { return m.Verify(hs, proof, true) }})
		case "badpartial": // rejected: no proof hashes supplied although some are missing
			td := L.Targets(op.Set)
			hs := ref.Hashes(op.Set)
			out = append(out, wcall{op, func() error { return m.VerifyPartialProof(td, hs, nil, true) }})
		case "badmodify": // rejected: proof with a wrong hash
			proof := L.Proof(op.Dels)
			dh := ref.Hashes(op.Dels)
			if len(proof.Proof) > 0 {
				proof.Proof = append([]Hash(nil), proof.Proof...)
				proof.Proof[0] = ref.FreshHash(4)
			} else {
				dh[0] = ref.FreshHash(4)
			}
			out = append(out, wcall{op, func() error { return m.Modify(nil, dh, proof) }})
		case "prune":
			hs := ref.Hashes(op.Set)
			out = append(out, wcall{op, func() error { return m.Prune(hs) }})
		case "read":
			// bytes of another state: the same forest after deleting op.Dels and adding op.Adds,
			// produced sequentially on a replica
			rep, err := c12New(c12Scenario{Full: ci.in.cfg.Full, TR: ci.in.cfg.TR, Mode: ci.in.cfg.Mode, Prep: append(append([]Op(nil), ci.prepHist()...), Op{Kind: "block", Dels: op.Dels, Adds: op.Adds})})
			if err != nil {
				return nil, err
			}
			var buf bytes.Buffer
			if _, err := rep.m.Write(&buf); err != nil {
				return nil, err
			}
			data := buf.Bytes()
			out = append(out, wcall{op, func() error { _, e := m.Read(bytes.NewReader(data)); return e }})
		default:
			return nil, fmt.Errorf("unknown writer op %q", op.Kind)
		}
	}
	return out, nil
}

func (ci *c12Inst) prepHist() []Op { return ci.prep }

// runQuery performs one reader query and renders the result canonically.
func runQuery(ci *c12Inst, q c12Query, preState ref.State) string {
	m := ci.m
	L := ref.APILayout(preState)
	switch q.Kind {
	case "roots":
		return "roots:" + shortHs(m.GetRoots())
	case "stump":
		st := m.GetStump()
		return fmt.Sprintf("stump:%d:%s", st.NumLeaves, shortHs(st.Roots))
	case "prove":
		p, err := m.Prove(ref.Hashes(q.Slots))
		if err != nil {
			return "prove:error"
		}
		return "prove:" + proofStr(p)
	case "verify":
		// the proof is the honest one for the pre-writer state
		live := true
		for _, s := range q.Slots {
			if s >= preState.N() || !preState.Alive[s] {
				live = false
			}
		}
		if !live {
			return "verify:n/a"
		}
		err := m.Verify(ref.Hashes(q.Slots), L.Proof(q.Slots), false)
		return fmt.Sprintf("verify:%v", err == nil)
	case "leafpos":
		p, ok := m.GetLeafPosition(ref.LeafHash(q.Slots[0]))
		return fmt.Sprintf("leafpos:%d:%v", p, ok)
	case "leafpositions":
		return fmt.Sprintf("leafpositions:%v", m.GetLeafHashPositions(ref.Hashes(q.Slots)))
	case "gethash":
		h := m.GetHash(q.Pos)
		return fmt.Sprintf("gethash:%x", h[:4])
	case "missing":
		var ts []uint64
		for _, s := range q.Slots {
			if p, ok := L.LeafPos[s]; ok {
				ts = append(ts, p)
			}
		}
		return fmt.Sprintf("missing:%v", m.GetMissingPositions(ts))
	case "numleaves":
		return fmt.Sprintf("numleaves:%d", m.GetNumLeaves())
	case "treerows":
		return fmt.Sprintf("treerows:%d", m.GetTreeRows())
	case "write":
		k := &schedSink{h: ci.h}
		n, err := m.Write(k)
		return fmt.Sprintf("write:%d:%v:%x", n, err == nil, k.buf.Bytes())
	}
	return "?"
}

// ---- one execution ----

type c12Event struct {
	call, ret int
	result    string
}

type c12Exec struct {
	s        *vs.Sched
	wev      []c12Event   // writer ops
	rev      [][]c12Event // reader queries per thread
	werr     []string
	w2err    []string
	disc     []string
	finalKey string
	problems []string // the execution exceeded the step horizon
	diverged string   // replay divergence (nondeterminism the harness does not own)
}

func c12Run(sc c12Scenario, prefix []int) (*c12Exec, error) {
	ci, err := c12New(sc)
	if err != nil {
		return nil, err
	}
	pre := ci.md.s.Clone()
	wcalls, err := ci.prepareWriter(sc.Writer)
	if err != nil {
		return nil, err
	}
	s := &vs.Sched{MaxSteps: 20000}
	ci.h.s = s
	ci.h.lock = ci.m.VerifLock()
	ci.h.lock.Attach(s)
	ex := &c12Exec{s: s, wev: make([]c12Event, len(wcalls)), rev: make([][]c12Event, len(sc.Readers)), werr: make([]string, len(wcalls))}
	s.Spawn(func() {
		for i, w := range wcalls {
			ex.wev[i].call = s.Step()
			if err := w.call(); err != nil {
				ex.werr[i] = err.Error()
			}
			ex.wev[i].ret = s.Step()
		}
	})
	for ti, prog := range sc.Readers {
		ti, prog := ti, prog
		ex.rev[ti] = make([]c12Event, len(prog))
		s.Spawn(func() {
			for qi, q := range prog {
				ex.rev[ti][qi].call = s.Step()
				ex.rev[ti][qi].result = runQuery(ci, q, pre)
				ex.rev[ti][qi].ret = s.Step()
			}
		})
	}
	if len(sc.Writer2) > 0 {
		w2calls, err := ci.prepareWriter(sc.Writer2)
		if err != nil {
			return nil, err
		}
		ex.w2err = make([]string, len(w2calls))
		s.Spawn(func() {
			for i, w := range w2calls {
				if err := w.call(); err != nil {
					ex.w2err[i] = err.Error()
				}
			}
		})
	}
	s.Run(prefix)
	ci.h.s = nil
	ci.h.lock.Attach(nil)
	ex.disc = ci.h.disc
	ex.diverged = s.Diverged
	if s.Overrun {
		ex.problems = append(ex.problems, "execution exceeded the horizon of 20000 scheduling points")
	}
	if !s.Deadlock && s.Diverged == "" && !s.Overrun {
		ex.finalKey = DumpMap(ci.m)
	}
	return ex, nil
}

// c12Expected computes, sequentially, the result of every query in every whole-block state
// (after 0..k writer ops) and the final concrete state.
type c12Expect struct {
	res      [][][]string // [state][thread][query]
	finalKey string
	werr     []string
	// two mutators: the sequential outcomes of both orders
	orders []c12Order
}

type c12Order struct {
	name     string
	werr     []string
	w2err    []string
	finalKey string
}

// c12SeqOrder runs Writer and Writer2 sequentially in the given order on a fresh instance (as the
// single thread of a scheduler, see c12Expected).
func c12SeqOrder(sc c12Scenario, firstIsWriter bool) (*c12Order, error) {
	ci, err := c12New(sc)
	if err != nil {
		return nil, err
	}
	w1, err := ci.prepareWriter(sc.Writer)
	if err != nil {
		return nil, err
	}
	w2, err := ci.prepareWriter(sc.Writer2)
	if err != nil {
		return nil, err
	}
	o := &c12Order{name: "writer;writer2", werr: make([]string, len(w1)), w2err: make([]string, len(w2))}
	if !firstIsWriter {
		o.name = "writer2;writer"
	}
	sq := &vs.Sched{MaxSteps: 200000}
	ci.h.s = sq
	ci.h.lock = ci.m.VerifLock()
	ci.h.lock.Attach(sq)
	runList := func(ws []wcall, errs []string) {
		for i, w := range ws {
			if err := w.call(); err != nil {
				errs[i] = err.Error()
			}
		}
	}
	th := sq.Spawn(func() {
		if firstIsWriter {
			runList(w1, o.werr)
			runList(w2, o.w2err)
		} else {
			runList(w2, o.w2err)
			runList(w1, o.werr)
		}
	})
	sq.Run(nil)
	ci.h.s = nil
	ci.h.lock.Attach(nil)
	if sq.Deadlock || sq.Overrun || th.Panic != nil {
		return nil, fmt.Errorf("SEQUENTIAL: the operations do not complete even without concurrency (deadlock=%v panic=%v) in order %s", sq.Deadlock, th.Panic, o.name)
	}
	o.finalKey = DumpMap(ci.m)
	return o, nil
}

func c12Expected(sc c12Scenario) (*c12Expect, error) {
	e := &c12Expect{}
	if len(sc.Writer2) > 0 {
		for _, first := range []bool{true, false} {
			o, err := c12SeqOrder(sc, first)
			if err != nil {
				return nil, err
			}
			e.orders = append(e.orders, *o)
		}
		return e, nil
	}
	for k := 0; k <= len(sc.Writer); k++ {
		ci, err := c12New(sc)
		if err != nil {
			return nil, err
		}
		pre := ci.md.s.Clone()
		wcalls, err := ci.prepareWriter(sc.Writer)
		if err != nil {
			return nil, err
		}
		werr := make([]string, len(wcalls))
		var per [][]string
		// run the sequential replica as the only thread of a scheduler, so that an operation
		// that blocks on a lock it leaked itself shows up as a deadlock instead of hanging
		sq := &vs.Sched{MaxSteps: 200000}
		ci.h.s = sq
		ci.h.lock = ci.m.VerifLock()
		ci.h.lock.Attach(sq)
		th := sq.Spawn(func() {
			for i := 0; i < k; i++ {
				if err := wcalls[i].call(); err != nil {
					werr[i] = err.Error()
				}
			}
			for _, prog := range sc.Readers {
				var rs []string
				for _, q := range prog {
					rs = append(rs, runQuery(ci, q, pre))
				}
				per = append(per, rs)
			}
		})
		sq.Run(nil)
		ci.h.s = nil
		ci.h.lock.Attach(nil)
		if sq.Deadlock || sq.Overrun || th.Panic != nil {
			return nil, fmt.Errorf("SEQUENTIAL: the operations do not complete even without concurrency (deadlock=%v panic=%v) after %d writer ops", sq.Deadlock, th.Panic, k)
		}
		ci.h.disc = nil
		if k == len(sc.Writer) {
			e.finalKey = DumpMap(ci.m)
			e.werr = werr
		}
		e.res = append(e.res, per)
	}
	return e, nil
}

// c12Check evaluates the oracle on one execution and returns (signature, detail) pairs.
func c12Check(sc c12Scenario, ex *c12Exec, exp *c12Expect) [][2]string {
	var out [][2]string
	add := func(sig, detail string) { out = append(out, [2]string{sig, detail}) }
	for _, p := range ex.problems {
		add("no progress: "+p, "")
	}
	if len(ex.problems) > 0 {
		return out
	}
	for _, t := range ex.s.Threads() {
		if t.Panic != nil {
			who := "reader"
			if t.ID == 0 {
				who = "writer"
			}
			add("panic in a "+who+" thread", fmt.Sprint(t.Panic))
		}
	}
	if ex.s.Deadlock {
		add("deadlock: no thread can proceed", fmt.Sprintf("schedule %v", ex.s.Trace))
		return out
	}
	if len(ex.disc) > 0 {
		seen := map[string]bool{}
		for _, d := range ex.disc {
			if !seen[d] {
				seen[d] = true
				add("lock discipline: "+d, "")
			}
		}
	}
	if len(out) > 0 {
		return out
	}
	if len(exp.orders) > 0 {
		match := false
		for _, o := range exp.orders {
			if fmt.Sprint(errFlags(ex.werr)) == fmt.Sprint(errFlags(o.werr)) && fmt.Sprint(errFlags(ex.w2err)) == fmt.Sprint(errFlags(o.w2err)) && ex.finalKey == o.finalKey {
				match = true
			}
		}
		if !match {
			add("two mutating goroutines: the outcome equals neither sequential order", fmt.Sprintf("errors %v / %v; sequential: %s errors %v / %v, %s errors %v / %v", errFlags(ex.werr), errFlags(ex.w2err), exp.orders[0].name, errFlags(exp.orders[0].werr), errFlags(exp.orders[0].w2err), exp.orders[1].name, errFlags(exp.orders[1].werr), errFlags(exp.orders[1].w2err)))
		}
		return out
	}
	for i := range ex.werr {
		if ex.werr[i] != exp.werr[i] {
			add("a writer operation's outcome differs from the sequential run", fmt.Sprintf("op %d (%s): concurrent %q sequential %q", i, sc.Writer[i].Kind, ex.werr[i], exp.werr[i]))
		}
	}
	// linearizability: assign every query a whole-block state index
	type qref struct {
		ti, qi   int
		lo, hi   int
		call, rt int
		result   string
	}
	var qs []qref
	for ti := range ex.rev {
		for qi, ev := range ex.rev[ti] {
			lo, hi := 0, 0
			for _, w := range ex.wev {
				if w.ret <= ev.call {
					lo++
				}
				if w.call <= ev.ret {
					hi++
				}
			}
			qs = append(qs, qref{ti, qi, lo, hi, ev.call, ev.ret, ev.result})
		}
	}
	assign := make([]int, len(qs))
	var solve func(i int) bool
	solve = func(i int) bool {
		if i == len(qs) {
			return true
		}
		q := qs[i]
		for st := q.lo; st <= q.hi; st++ {
			if exp.res[st][q.ti][q.qi] != q.result {
				continue
			}
			ok := true
			for j := 0; j < i; j++ {
				p := qs[j]
				if p.rt <= q.call && assign[j] > st { // p completed before q began
					ok = false
				}
				if q.rt <= p.call && st > assign[j] {
					ok = false
				}
			}
			if !ok {
				continue
			}
			assign[i] = st
			if solve(i + 1) {
				return true
			}
		}
		return false
	}
	if !solve(0) {
		// name the first query that matches no admissible whole-block state at all
		for _, q := range qs {
			match := false
			for st := q.lo; st <= q.hi; st++ {
				if exp.res[st][q.ti][q.qi] == q.result {
					match = true
				}
			}
			if !match {
				var adm []string
				for st := q.lo; st <= q.hi; st++ {
					adm = append(adm, exp.res[st][q.ti][q.qi])
				}
				add("a query observed a state that is no whole-block state: "+sc.Readers[q.ti][q.qi].Kind, fmt.Sprintf("got %.120s; admissible %.300s", q.result, strings.Join(adm, " | ")))
				return out
			}
		}
		add("query results are not linearizable (each matches some whole-block state, but no consistent order exists)", fmt.Sprintf("%v", qs))
		return out
	}
	if ex.finalKey != exp.finalKey {
		add("the final state differs from the sequential post-state", "")
	}
	return out
}

func errFlags(es []string) []bool {
	out := make([]bool, len(es))
	for i, e := range es {
		out[i] = e != ""
	}
	return out
}

// ---- exploration ----

type c12Stats struct {
	execs    int64
	outcomes map[string]struct{}
	capped   bool
}

// c12Explore runs the preemption-bounded DFS for one scenario.
func c12Explore(c *Ctx, sc c12Scenario, bound int, maxExecs int64, report func(sig, detail string, schedule []int)) (execs int64, outcomes int, capped bool, err error) {
	exp, err := c12Expected(sc)
	if err != nil {
		return 0, 0, false, err
	}
	seenOut := map[string]struct{}{}
	reported := map[string]bool{}
	var explore func(prefix []int)
	explore = func(prefix []int) {
		if capped {
			return
		}
		if maxExecs > 0 && execs >= maxExecs || (execs%64 == 0 && c.Expired()) {
			capped = true
			return
		}
		ex, e := c12Run(sc, prefix)
		if e != nil {
			err = e
			capped = true
			return
		}
		if ex.diverged != "" {
			// the same choices led to different enabled sets than in the execution the prefix was
			// taken from: a source of nondeterminism the harness does not own. Never a verdict on
			// the property - the subtree is skipped and the run is reported as not exhaustive.
			c.Col.Note("HARNESS: " + sc.Name + ": " + ex.diverged)
			c.Cov.NotExhaustive("nondeterministic execution in scenario " + sc.Name + " (" + ex.diverged + ")")
			return
		}
		execs++
		var ob strings.Builder
		for ti := range ex.rev {
			for _, ev := range ex.rev[ti] {
				ob.WriteString(ev.result)
				ob.WriteString(";")
			}
		}
		seenOut[ob.String()] = struct{}{}
		for _, v := range c12Check(sc, ex, exp) {
			if !reported[v[0]] {
				reported[v[0]] = true
				report(v[0], v[1], append([]int(nil), ex.s.Trace...))
			}
		}
		tr, en, rs := ex.s.Trace, ex.s.Enabled, ex.s.RunStill
		pre := 0
		for i := 0; i < len(tr); i++ {
			if i >= len(prefix) {
				cost := pre
				if rs[i] {
					cost++
				}
				if cost <= bound {
					for alt := 1; alt < len(en[i]); alt++ {
						np := append(append([]int(nil), tr[:i]...), alt)
						explore(np)
					}
				}
			}
			if rs[i] && tr[i] != 0 {
				pre++
			}
		}
	}
	explore(nil)
	return execs, len(seenOut), capped, err
}

// ---- scenario catalogue ----

func c12Scenarios(thorough bool) []c12Scenario {
	type prepared struct {
		name string
		full bool
		tr   uint8
		mode string
		prep []Op
		w    [][]c12WOp
		// leaves and positions worth querying
		slots []int
		poss  []uint64
	}
	blk := func(d []int, a int) Op { return Op{Kind: "block", Dels: d, Adds: a} }
	preps := []prepared{
		{name: "full3", full: true, tr: 0, prep: []Op{blk(nil, 3)},
			w: [][]c12WOp{
				{{Kind: "modify", Dels: []int{1}, Adds: 3}},
				{{Kind: "modify", Dels: []int{1}, Adds: 3}, {Kind: "undo"}},
				{{Kind: "read", Dels: []int{0}, Adds: 2}},
				{{Kind: "badmodify", Dels: []int{0}}, {Kind: "badverify", Set: []int{2}}, {Kind: "modify", Dels: []int{0}, Adds: 1}},
			}, slots: []int{0, 1, 2, 3}, poss: []uint64{0, 2, 4, 5}},
		{name: "full5zombie", full: true, tr: 3, prep: []Op{blk(nil, 5), blk([]int{4}, 0)},
			w: [][]c12WOp{
				{{Kind: "modify", Dels: []int{0, 1}, Adds: 2}},
				{{Kind: "modify", Dels: []int{2}, Adds: 4}, {Kind: "undo"}},
			}, slots: []int{0, 2, 3, 5}, poss: []uint64{0, 4, 8, 12}},
		{name: "partial4", full: false, tr: 0, mode: "all", prep: []Op{blk(nil, 4), blk([]int{1}, 0)},
			w: [][]c12WOp{
				{{Kind: "modify", Dels: []int{0}, Adds: 2}},
				{{Kind: "prune", Set: []int{2}}},
				{{Kind: "modify", Dels: []int{3}, Adds: 1}, {Kind: "undo"}},
			}, slots: []int{0, 2, 3, 4}, poss: []uint64{0, 2, 4, 5}},
		{name: "partial6none", full: false, tr: 63, mode: "none", prep: []Op{blk(nil, 6), blk([]int{3}, 0)},
			w: [][]c12WOp{
				{{Kind: "verify", Set: []int{0, 5}}},
				{{Kind: "partialproof", Set: []int{2}}},
				{{Kind: "ingest", Set: []int{4}}},
				{{Kind: "verify", Set: []int{1}}, {Kind: "prune", Set: []int{1}}},
				{{Kind: "badpartial", Set: []int{2}}, {Kind: "badverify", Set: []int{0}}, {Kind: "verify", Set: []int{2}}},
			}, slots: []int{0, 1, 2, 5}, poss: []uint64{0, 2, 8, 12}},
	}
	if thorough {
		preps = append(preps, prepared{name: "partial5even", full: false, tr: 3, mode: "even", prep: []Op{blk(nil, 5), blk([]int{0}, 1)},
			w: [][]c12WOp{
				{{Kind: "modify", Dels: []int{2}, Adds: 3}},
				{{Kind: "verify", Set: []int{1, 3}}, {Kind: "modify", Dels: []int{1, 3}, Adds: 0}},
				{{Kind: "read", Dels: []int{4}, Adds: 1}},
			}, slots: []int{1, 2, 4, 5}, poss: []uint64{1, 4, 9, 13}})
	}
	var out []c12Scenario
	for _, p := range preps {
		var queries []c12Query
		queries = append(queries, c12Query{Kind: "roots"}, c12Query{Kind: "stump"}, c12Query{Kind: "numleaves"}, c12Query{Kind: "treerows"}, c12Query{Kind: "write"})
		queries = append(queries, c12Query{Kind: "prove", Slots: p.slots[:1]}, c12Query{Kind: "prove", Slots: []int{p.slots[1], p.slots[2]}})
		queries = append(queries, c12Query{Kind: "verify", Slots: p.slots[:1]}, c12Query{Kind: "verify", Slots: p.slots[2:3]})
		queries = append(queries, c12Query{Kind: "leafpos", Slots: p.slots[1:2]}, c12Query{Kind: "leafpos", Slots: p.slots[3:4]})
		queries = append(queries, c12Query{Kind: "leafpositions", Slots: p.slots})
		queries = append(queries, c12Query{Kind: "missing", Slots: p.slots[:2]})
		for _, ps := range p.poss {
			queries = append(queries, c12Query{Kind: "gethash", Pos: ps})
		}
		for wi, w := range p.w {
			mk := func(tag string, readers [][]c12Query) {
				out = append(out, c12Scenario{Name: fmt.Sprintf("%s/w%d/%s", p.name, wi, tag), Full: p.full, TR: p.tr, Mode: p.mode, Prep: p.prep, Writer: w, Readers: readers})
			}
			// one reader, one query
			for qi, q := range queries {
				mk(fmt.Sprintf("1r-q%d-%s", qi, q.Kind), [][]c12Query{{q}})
			}
			// one reader, two queries (monotonicity)
			pairs := [][2]int{{0, 2}, {2, 0}, {1, 9}, {5, 0}, {3, 2}}
			if thorough {
				for a := range queries {
					for b := range queries {
						if a != b && (a+b)%3 == 0 {
							pairs = append(pairs, [2]int{a, b})
						}
					}
				}
			}
			for _, pr := range pairs {
				mk(fmt.Sprintf("1r-q%d+q%d", pr[0], pr[1]), [][]c12Query{{queries[pr[0]], queries[pr[1]]}})
			}
			// two readers
			two := [][2]int{{0, 2}, {1, 5}, {4, 9}}
			if thorough {
				two = append(two, [2]int{2, 3}, [2]int{7, 12}, [2]int{6, 13}, [2]int{11, 0})
			}
			for _, pr := range two {
				mk(fmt.Sprintf("2r-q%d|q%d", pr[0], pr[1]), [][]c12Query{{queries[pr[0]]}, {queries[pr[1]]}})
			}
		}
	}
	// two mutating goroutines: a block concurrent with Verify(remember) / VerifyPartialProof(remember)
	// / Prune of leaves that exist before the block (not Ingest: it documents that the caller must
	// have verified the proof against the current state, which a concurrent block invalidates)
	two := []c12Scenario{
		{Name: "2w/partial5none/verify-root-leaf|add3", TR: 63, Mode: "none", Prep: []Op{blk(nil, 5)},
			Writer: []c12WOp{{Kind: "verify", Set: []int{4}}}, Writer2: []c12WOp{{Kind: "modify", Adds: 3}}},
		{Name: "2w/partial6none/verify|del+add", TR: 0, Mode: "none", Prep: []Op{blk(nil, 6), blk([]int{3}, 0)},
			Writer: []c12WOp{{Kind: "verify", Set: []int{0, 5}}}, Writer2: []c12WOp{{Kind: "modify", Dels: nil, Adds: 2}}},
		{Name: "2w/partial6none/partialproof|add", TR: 63, Mode: "none", Prep: []Op{blk(nil, 6)},
			Writer: []c12WOp{{Kind: "partialproof", Set: []int{2}}}, Writer2: []c12WOp{{Kind: "modify", Adds: 2}}},
		{Name: "2w/partial4all/prune|del+add", TR: 0, Mode: "all", Prep: []Op{blk(nil, 4)},
			Writer: []c12WOp{{Kind: "prune", Set: []int{2}}}, Writer2: []c12WOp{{Kind: "modify", Dels: []int{0}, Adds: 1}}},
		{Name: "2w/full5/verify|add3", Full: true, TR: 0, Prep: []Op{blk(nil, 5)},
			Writer: []c12WOp{{Kind: "verify", Set: []int{4}}}, Writer2: []c12WOp{{Kind: "modify", Adds: 3}}},
	}
	out = append(out, two...)
	return out
}

func init() {
	haveSched = true
	Engines["sched12"] = func(prop string, payload json.RawMessage) ([]Violation, error) {
		var cs c12Case
		if err := json.Unmarshal(payload, &cs); err != nil {
			return nil, err
		}
		exp, err := c12Expected(cs.Sc)
		if err != nil && strings.HasPrefix(err.Error(), "SEQUENTIAL:") {
			return []Violation{{Prop: "C12", Sig: "deadlock or panic in a single goroutine: a sequence of calls does not complete even without concurrency", Detail: err.Error(), Case: Case{Engine: "sched12", Payload: payload}}}, nil
		}
		if err != nil {
			return nil, err
		}
		ex, err := c12Run(cs.Sc, cs.Schedule)
		if err != nil {
			return nil, err
		}
		if ex.diverged != "" {
			return nil, fmt.Errorf("the recorded schedule cannot be replayed: %s", ex.diverged)
		}
		var out []Violation
		for _, v := range c12Check(cs.Sc, ex, exp) {
			out = append(out, Violation{Prop: "C12", Sig: v[0], Detail: v[1], Case: Case{Engine: "sched12", Payload: payload}})
		}
		return out, nil
	}
	Checks["C12"] = checkC12
	ExtraCommands["c12race"] = c12Race
}

func checkC12(c *Ctx) {
	bound := pick(c, 2, 3)
	scs := c12Scenarios(c.Thorough())
	c.Cov.Rule = "scenario = prepared MapPollard state (full/partial, zombie roots, climbed leaves, several TotalRows) x writer program (Modify with deletions and additions crossing a power of two, Modify+Undo, Verify(remember), VerifyPartialProof(remember), Ingest, Prune, Read of another state's bytes, and programs that start with rejected calls - wrong hash, missing proof - so that error paths release the lock) x reader programs (one or two queries on one or two threads from GetRoots, GetStump, Prove, Verify, GetLeafPosition, GetLeafHashPositions, GetHash, GetMissingPositions, GetNumLeaves, GetTreeRows, Write); for every scenario every schedule with at most `bound` preemptions is executed on the real code under a cooperative scheduler whose points are thread start/end, every RWMutex operation, every Nodes/CachedLeaves access and every sink write; oracle per execution: no panic, no deadlock, lock discipline at every map access, every query result equal to the sequential result in a whole-block state admissible for its call/return interval with a consistent order (brute force), final state equal to the sequential post-state; a few scenarios run two mutating goroutines (a block concurrent with Verify(remember), VerifyPartialProof(remember) or Prune) and require the outcome to equal one of the two sequential orders; plus a separate free-running -race pass over the same scenarios; states = scenarios, transitions = executions (schedules), non-trivial = executions with at least one preemption"
	c.Cov.Bound["preemption_bound"] = bound
	c.Cov.Bound["scenarios"] = len(scs)
	perScenarioCap := int64(pick(c, 100000, 5000000))
	var execs, nontriv int64
	outcomes := make([]int, len(scs))
	var cappedN int32
	ok := parallelFor(c, len(scs), func(i int) {
		sc := scs[i]
		n, oc, capped, err := c12Explore(c, sc, bound, perScenarioCap, func(sig, detail string, schedule []int) {
			c.Col.Add(Violation{Prop: "C12", Sig: sig, Detail: fmt.Sprintf("%s: %s", sc.Name, detail), Case: mkCase("sched12", c12Case{Sc: sc, Schedule: schedule})})
		})
		if err != nil && strings.HasPrefix(err.Error(), "SEQUENTIAL:") {
			c.Col.Add(Violation{Prop: "C12", Sig: "deadlock or panic in a single goroutine: a sequence of calls does not complete even without concurrency", Detail: sc.Name + ": " + err.Error(), Case: mkCase("sched12", c12Case{Sc: sc})})
		} else if err != nil {
			c.Col.Note("C12 scenario could not be run: " + sc.Name + ": " + err.Error())
			fmt.Println("HARNESS: scenario", sc.Name, "could not be run:", err)
		}
		atomic.AddInt64(&execs, n)
		if n > 1 {
			atomic.AddInt64(&nontriv, n-1)
		}
		outcomes[i] = oc
		if capped {
			atomic.AddInt32(&cappedN, 1)
		}
		if i%37 == 0 {
			c.Cov.Sample(map[string]any{"scenario": sc.Name, "writer": sc.Writer, "readers": sc.Readers, "schedules": n, "distinct_outcomes": oc})
		}
	})
	if !ok || cappedN > 0 {
		c.Cov.NotExhaustive(fmt.Sprintf("%d scenario(s) hit the execution cap or the deadline; all others were explored completely within the preemption bound", cappedN))
	}
	c.Cov.AddStates(int64(len(scs)))
	c.Cov.AddTransitions(execs)
	c.Cov.AddEvals(execs)
	c.Cov.AddNontrivial(nontriv)
	multi := 0
	for _, o := range outcomes {
		if o > 1 {
			multi++
		}
	}
	c.Cov.SetExtra("scenarios_with_more_than_one_observed_outcome", multi)
	c.Cov.SetExtra("schedules", execs)

	// free-running race pass in a separate -race binary (cooperative hand-offs are
	// happens-before edges and would blind the detector)
	raceBin := os.Getenv("VERIF_RACE_BIN")
	if raceBin == "" {
		raceBin = "/verif/build/vmcxrace"
	}
	if _, err := os.Stat(raceBin); err != nil {
		c.Cov.SetExtra("race_pass", "skipped: race binary not built")
		c.Cov.NotExhaustive("race pass skipped")
		return
	}
	rctx, cancel := context.WithTimeout(context.Background(), time.Duration(pick(c, 300, 1500))*time.Second)
	defer cancel()
	cmd := exec.CommandContext(rctx, raceBin, "c12race", c.Tier)
	cmd.Env = append(os.Environ(), "GORACE=halt_on_error=0 exitcode=0")
	var stderr bytes.Buffer
	cmd.Stderr = &stderr
	outb, err := cmd.Output()
	races := strings.Count(stderr.String(), "WARNING: DATA RACE")
	c.Cov.SetExtra("race_pass", strings.TrimSpace(string(outb)))
	c.Cov.SetExtra("race_reports", races)
	if n := strings.Count(stderr.String(), "FREE-RUNNING EXECUTION DID NOT FINISH"); n > 0 {
		c.Col.Note("free-running executions that did not finish (deadlocks are decided by the scheduler exploration)")
		c.Cov.NotExhaustive(fmt.Sprintf("%d free-running executions did not finish", n))
	}
	if rctx.Err() != nil {
		// never a violation by itself: a real deadlock is found deterministically by the
		// scheduler exploration above; here it only means the pass could not complete
		c.Col.Note("free-running race pass did not finish within its time limit")
		c.Cov.NotExhaustive("free-running race pass did not finish within its time limit")
	} else if err != nil {
		c.Col.Note("race pass failed to run: " + err.Error())
		c.Cov.NotExhaustive("race pass failed to run")
	}
	for _, fatal := range []string{"fatal error: concurrent map", "fatal error: sync: "} {
		// unrecoverable runtime errors that only unsynchronized access to the forest's maps or a
		// mishandled lock can cause (the harness goroutines share nothing else that is written)
		if idx := strings.Index(stderr.String(), fatal); idx >= 0 {
			rep := stderr.String()[idx:]
			line := rep
			if k := strings.Index(line, "\n"); k > 0 {
				line = line[:k]
			}
			if len(rep) > 3000 {
				rep = rep[:3000]
			}
			os.MkdirAll("/verif/replays", 0o755)
			os.WriteFile("/verif/replays/C12-race-report.txt", []byte(stderr.String()), 0o644)
			c.Col.Add(Violation{Prop: "C12", Sig: "the free-running pass died with a runtime " + line, Detail: rep, Case: mkCase("race", map[string]string{"cmd": raceBin + " c12race " + c.Tier})})
			break
		}
	}
	if races > 0 {
		// attribute to the first utreexo frames of the first report
		rep := stderr.String()
		idx := strings.Index(rep, "WARNING: DATA RACE")
		first := rep[idx:]
		if len(first) > 1500 {
			first = first[:1500]
		}
		var fr []string
		for _, ln := range strings.Split(first, "\n") {
			ln = strings.TrimSpace(ln)
			if strings.HasPrefix(ln, "github.com/utreexo/utreexo.") && len(fr) < 2 {
				fn := strings.TrimPrefix(ln, "github.com/utreexo/utreexo.")
				if k := strings.LastIndex(fn, "("); k > 0 {
					fn = fn[:k]
				}
				fr = append(fr, fn)
			}
		}
		os.MkdirAll("/verif/replays", 0o755)
		os.WriteFile("/verif/replays/C12-race-report.txt", []byte(rep), 0o644)
		c.Col.Add(Violation{Prop: "C12", Sig: "data race reported by the free-running -race pass: " + strings.Join(fr, " / "), Detail: first, Case: mkCase("race", map[string]string{"cmd": raceBin + " c12race " + c.Tier})})
	}
}

// c12Race runs every scenario free-running (real goroutines, real sync through the detached
// shim) a number of times; meant to be executed from a binary built with -race.
func c12Race(args []string) int {
	thorough := len(args) > 0 && args[0] == "thorough"
	scs := c12Scenarios(thorough)
	iters := 6
	if thorough {
		iters = 30
	}
	runs, stuck := 0, 0
	for _, sc := range scs {
		if !strings.Contains(sc.Name, "2r-") && !strings.Contains(sc.Name, "1r-q") {
			continue
		}
		if stuck >= 3 {
			break // something blocks systematically; the scheduler exploration decides what
		}
		for it := 0; it < iters; it++ {
			ci, err := c12New(sc)
			if err != nil {
				continue
			}
			// raw maps: let the detector see the accesses without harness code in between
			ci.m.Nodes = ci.m.Nodes.(*schedNodes).in
			ci.m.CachedLeaves = ci.m.CachedLeaves.(*schedCached).in
			pre := ci.md.s.Clone()
			wcalls, err := ci.prepareWriter(sc.Writer)
			if err != nil {
				continue
			}
			var wg sync.WaitGroup
			start := make(chan struct{})
			wg.Add(1 + len(sc.Readers))
			go func() {
				defer wg.Done()
				defer func() { recover() }()
				<-start
				for _, w := range wcalls {
					w.call()
				}
			}()
			for _, prog := range sc.Readers {
				prog := prog
				go func() {
					defer wg.Done()
					defer func() { recover() }()
					<-start
					for k := 0; k < 3; k++ {
						for _, q := range prog {
							runQuery(ci, q, pre)
						}
					}
				}()
			}
			close(start)
			fin := make(chan struct{})
			go func() { wg.Wait(); close(fin) }()
			select {
			case <-fin:
			case <-time.After(15 * time.Second):
				// goroutines blocked on each other: leave them and go on with the next scenario
				stuck++
				fmt.Fprintf(os.Stderr, "FREE-RUNNING EXECUTION DID NOT FINISH: %s\n", sc.Name)
				it = iters
			}
			runs++
		}
	}
	fmt.Printf("free-running executions: %d over %d scenarios x %d iterations; %d did not finish", runs, len(scs), iters, stuck)
	return 0
}
