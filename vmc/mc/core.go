// Package mc holds the explorers (explicit-state search over operation histories, exhaustive
// input enumeration, fault enumeration, geometry enumeration), the per-property oracles, and
// the reporting machinery (violations, replays, known findings, evidence).
package mc

import (
	"bytes"
	"compress/gzip"
	"crypto/sha256"
	"encoding/hex"
	"encoding/json"
	"fmt"
	"io"
	"os"
	"path/filepath"
	"runtime"
	"runtime/debug"
	"sort"
	"strings"
	"sync"
	"sync/atomic"
	"time"
)

// VerifDir is where MANIFEST, evidence, replays and findings live.
var VerifDir = "/verif"

// Case is a replayable unit of work: one history, one input triple, one fault scenario ...
// Engine selects the RunCase implementation; Payload is engine specific.
type Case struct {
	Engine  string          `json:"engine"`
	Payload json.RawMessage `json:"payload"`
}

func mkCase(engine string, payload any) Case {
	b, err := json.Marshal(payload)
	if err != nil {
		panic(err)
	}
	return Case{Engine: engine, Payload: b}
}

// panicSite names the innermost function of the library under test on the current (panicking)
// goroutine's stack; "" when the panic did not pass through the library.
func panicSite(stack []byte) string {
	for _, ln := range strings.Split(string(stack), "\n") {
		if strings.HasPrefix(ln, "github.com/utreexo/utreexo.") {
			fn := strings.TrimPrefix(ln, "github.com/utreexo/utreexo.")
			if k := strings.LastIndex(fn, "("); k > 0 {
				fn = fn[:k]
			}
			return fn
		}
	}
	return ""
}

// panicViolation turns a recovered panic into a violation of prop. A panic that did not pass
// through the library is the harness's own bug and is re-raised.
func panicViolation(prop string, r any, stack []byte, cs Case, caseID string) Violation {
	site := panicSite(stack)
	if site == "" {
		panic(fmt.Sprintf("harness panic: %v\n%s", r, stack))
	}
	st := string(stack)
	if len(st) > 2500 {
		st = st[:2500]
	}
	return Violation{Prop: prop, Sig: "panic in a library call on honest input: " + site, Detail: fmt.Sprintf("%v\n%s", r, st), Case: cs, CaseID: caseID}
}

// Violation is one failed oracle clause on one case.
type Violation struct {
	Prop   string `json:"property"`
	Sig    string `json:"signature"` // oracle clause + API + implementation class (stable, low cardinality)
	Detail string `json:"detail"`    // expected vs observed
	Case   Case   `json:"case"`
	// CaseID, when set, identifies the case for known-finding case sets independently of the
	// search parameters and of the payload's encoding (e.g. the operation history alone).
	CaseID string `json:"case_id,omitempty"`
}

// caseHash identifies a (signature, case) pair for known-finding case sets.
func (v Violation) caseHash() string {
	h := sha256.New()
	h.Write([]byte(v.Prop))
	h.Write([]byte{0})
	h.Write([]byte(v.Sig))
	h.Write([]byte{0})
	h.Write([]byte(v.Case.Engine))
	h.Write([]byte{0})
	if v.CaseID != "" {
		h.Write([]byte(v.CaseID))
	} else {
		h.Write(v.Case.Payload)
	}
	return hex.EncodeToString(h.Sum(nil)[:8])
}

// Collector gathers violations from parallel workers.
type Collector struct {
	mu       sync.Mutex
	first    map[string]Violation // first violation per signature not covered by a known finding
	count    map[string]int       // all violations per signature
	unknown  map[string]int       // violations per signature not covered by a known finding
	known    map[string]int       // finding id -> matched cases
	hashes   map[string][]string  // sig -> case hashes (only with VERIF_DUMP_CASES)
	Notes    map[string]int       // non-violation observations (e.g. blocked paths)
	total    int
	findings []Finding
	dump     bool
	loadErr  error
}

func NewCollector() *Collector {
	c := &Collector{first: map[string]Violation{}, count: map[string]int{}, unknown: map[string]int{}, known: map[string]int{},
		hashes: map[string][]string{}, Notes: map[string]int{}, dump: os.Getenv("VERIF_DUMP_CASES") != ""}
	c.findings, c.loadErr = loadFindings()
	return c
}

func (c *Collector) Add(vs ...Violation) {
	if len(vs) == 0 {
		return
	}
	c.mu.Lock()
	defer c.mu.Unlock()
	for _, v := range vs {
		k := v.Prop + "|" + v.Sig
		c.count[k]++
		c.total++
		h := v.caseHash()
		if c.dump {
			c.hashes[k] = append(c.hashes[k], h)
		}
		matched := false
		for i := range c.findings {
			f := &c.findings[i]
			if f.Prop == v.Prop && f.Sig == v.Sig && (f.cases == nil || f.cases[h]) {
				c.known[f.ID]++
				matched = true
				break
			}
		}
		if !matched {
			c.unknown[k]++
			if _, ok := c.first[k]; !ok {
				c.first[k] = v
			}
		}
	}
}

// Unknown returns the number of violations not covered by a known finding.
func (c *Collector) Unknown() int {
	c.mu.Lock()
	defer c.mu.Unlock()
	n := 0
	for _, v := range c.unknown {
		n += v
	}
	return n
}

func (c *Collector) Note(k string) {
	c.mu.Lock()
	c.Notes[k]++
	c.mu.Unlock()
}

func (c *Collector) Total() int {
	c.mu.Lock()
	defer c.mu.Unlock()
	return c.total
}

// ---------- coverage accounting ----------

// Cov accumulates what a run covered. All counters are incremented by the machinery.
type Cov struct {
	States      int64 // distinct states (seen-set size) or distinct enumerated inputs' base states
	Transitions int64 // transitions executed on the real code
	Evaluations int64 // oracle evaluations / inputs tried / executions
	Nontrivial  int64
	Exhaustive  bool
	Capped      string // reason when not exhaustive
	Bound       map[string]any
	Extra       map[string]any
	Rule        string
	mu          sync.Mutex
	samples     []any
	distinct    map[string]struct{}
}

func NewCov() *Cov {
	return &Cov{Exhaustive: true, Bound: map[string]any{}, Extra: map[string]any{}, distinct: map[string]struct{}{}}
}

func (c *Cov) AddStates(n int64)      { atomic.AddInt64(&c.States, n) }
func (c *Cov) AddTransitions(n int64) { atomic.AddInt64(&c.Transitions, n) }
func (c *Cov) AddEvals(n int64)       { atomic.AddInt64(&c.Evaluations, n) }
func (c *Cov) AddNontrivial(n int64)  { atomic.AddInt64(&c.Nontrivial, n) }

// Distinct records a distinct non-trivial case key (kept only as a count of distinct keys).
func (c *Cov) Distinct(key string) {
	h := sha256.Sum256([]byte(key))
	c.mu.Lock()
	c.distinct[string(h[:12])] = struct{}{}
	c.mu.Unlock()
}

func (c *Cov) Sample(s any) {
	c.mu.Lock()
	if len(c.samples) < 6 {
		c.samples = append(c.samples, s)
	}
	c.mu.Unlock()
}

func (c *Cov) SetExtra(k string, v any) {
	c.mu.Lock()
	c.Extra[k] = v
	c.mu.Unlock()
}

func (c *Cov) AddExtra(k string, n int64) {
	c.mu.Lock()
	cur, _ := c.Extra[k].(int64)
	c.Extra[k] = cur + n
	c.mu.Unlock()
}

func (c *Cov) NotExhaustive(reason string) {
	c.mu.Lock()
	c.Exhaustive = false
	if c.Capped == "" {
		c.Capped = reason
	} else if !strings.Contains(c.Capped, reason) {
		c.Capped += "; " + reason
	}
	c.mu.Unlock()
}

// ---------- run context ----------

// Ctx is what a property check receives.
type Ctx struct {
	Prop     string
	Tier     string // quick | thorough
	Seed     int64
	Col      *Collector
	Cov      *Cov
	Start    time.Time
	Deadline time.Time
	Workers  int
	Assume   []string
}

// Phase returns a function that, when called, records the time since Phase was called under the
// given label in the evidence (coverage.extra.phase_s) - where the time of a check goes.
func (c *Ctx) Phase(label string) func() {
	t0 := time.Now()
	return func() {
		c.Cov.mu.Lock()
		l, _ := c.Cov.Extra["phase_s"].([]string)
		c.Cov.Extra["phase_s"] = append(l, fmt.Sprintf("%s: %.1f", label, time.Since(t0).Seconds()))
		c.Cov.mu.Unlock()
	}
}

func (c *Ctx) Thorough() bool { return c.Tier == "thorough" }
func (c *Ctx) Expired() bool  { return time.Now().After(c.Deadline) }

// pick returns q for the quick tier and t for thorough.
func pick[T any](c *Ctx, q, t T) T {
	if c.Thorough() {
		return t
	}
	return q
}

// parallelFor runs f(i) for i in [0,n) on ctx.Workers goroutines; stops early when the deadline
// passes (returns false in that case).
func parallelFor(c *Ctx, n int, f func(i int)) bool {
	var next int64 = -1
	var wg sync.WaitGroup
	var expired int32
	w := c.Workers
	if w > n {
		w = n
	}
	for k := 0; k < w; k++ {
		wg.Add(1)
		go func() {
			defer wg.Done()
			for {
				i := int(atomic.AddInt64(&next, 1))
				if i >= n {
					return
				}
				if i%16 == 0 && c.Expired() {
					atomic.StoreInt32(&expired, 1)
					return
				}
				func() {
					defer func() {
						if r := recover(); r != nil {
							// families that know their case recover themselves; this is the net below them
							stack := debug.Stack()
							c.Col.Add(panicViolation(c.Prop, r, stack, mkCase("panic", map[string]any{"task": i, "of": n, "stack": string(stack)}), fmt.Sprintf("task %d of %d", i, n)))
						}
					}()
					f(i)
				}()
			}
		}()
	}
	wg.Wait()
	return expired == 0
}

// ---------- known findings ----------

// Finding is one line of KNOWN_FINDINGS.txt.
//
//	known: property=C08 id=KF-1 sig=<signature> cases=<file|*> :: text
//	fixed: property=C04 <commit> <what failed>
type Finding struct {
	Prop, ID, Sig, CasesFile, Text string
	cases                          map[string]bool // nil => signature-only match
}

func loadFindings() ([]Finding, error) {
	if os.Getenv("VERIF_IGNORE_KNOWN") != "" {
		return nil, nil // maintenance: show every violation, e.g. while trying out a repair
	}
	b, err := os.ReadFile(filepath.Join(VerifDir, "KNOWN_FINDINGS.txt"))
	if err != nil {
		if os.IsNotExist(err) {
			return nil, nil
		}
		return nil, err
	}
	var out []Finding
	for _, line := range strings.Split(string(b), "\n") {
		line = strings.TrimSpace(line)
		if !strings.HasPrefix(line, "known:") {
			continue
		}
		head, text, _ := strings.Cut(strings.TrimPrefix(line, "known:"), "::")
		f := Finding{Text: strings.TrimSpace(text)}
		for _, kv := range strings.Fields(head) {
			k, v, _ := strings.Cut(kv, "=")
			switch k {
			case "property":
				f.Prop = v
			case "id":
				f.ID = v
			case "sig":
				f.Sig = strings.ReplaceAll(v, "\\s", " ")
			case "cases":
				f.CasesFile = v
			}
		}
		if f.CasesFile != "" && f.CasesFile != "*" {
			f.cases = map[string]bool{}
			for _, cf := range strings.Split(f.CasesFile, ",") {
				cb, err := os.ReadFile(filepath.Join(VerifDir, cf))
				if err != nil {
					return nil, fmt.Errorf("known finding %s: %v", f.ID, err)
				}
				if strings.HasSuffix(cf, ".gz") {
					zr, err := gzip.NewReader(bytes.NewReader(cb))
					if err != nil {
						return nil, fmt.Errorf("known finding %s: %v", f.ID, err)
					}
					if cb, err = io.ReadAll(zr); err != nil {
						return nil, fmt.Errorf("known finding %s: %v", f.ID, err)
					}
				}
				for _, h := range strings.Fields(string(cb)) {
					f.cases[h] = true
				}
			}
		}
		out = append(out, f)
	}
	return out, nil
}

// ---------- finishing a run ----------

type evidenceFile struct {
	PropertyID  string         `json:"property_id"`
	Tier        string         `json:"tier"`
	Seed        int64          `json:"seed"`
	Level       string         `json:"level"`
	Coverage    map[string]any `json:"coverage"`
	Assumptions []string       `json:"assumptions"`
	WallS       float64        `json:"wall_s"`
	Violations  int            `json:"violations"`
}

// Finish classifies violations against the known findings, writes replays and evidence, prints
// the VIOLATION / KNOWN-FINDING lines and returns the process exit code.
func Finish(c *Ctx) int {
	col := c.Col
	if col.loadErr != nil {
		fmt.Println("ERROR loading known findings:", col.loadErr)
		return 2
	}
	findings := col.findings
	col.mu.Lock()
	defer col.mu.Unlock()

	keys := make([]string, 0, len(col.count))
	for k := range col.count {
		keys = append(keys, k)
	}
	sort.Strings(keys)

	os.MkdirAll(filepath.Join(VerifDir, "replays"), 0o755)
	newViol := 0
	knownMatched := col.known
	var violLines []string
	dumpDir := os.Getenv("VERIF_DUMP_CASES") // maintenance: write all case hashes per signature
	for _, k := range keys {
		prop, sig, _ := strings.Cut(k, "|")
		if dumpDir != "" {
			os.MkdirAll(dumpDir, 0o755)
			hs := append([]string(nil), col.hashes[k]...)
			sort.Strings(hs)
			name := fmt.Sprintf("%s-%s-%s.cases", prop, c.Tier, sigSlug(sig))
			os.WriteFile(filepath.Join(dumpDir, name), []byte(strings.Join(hs, "\n")+"\n"), 0o644)
			fmt.Printf("  dumped %d case hashes for signature %q to %s\n", len(hs), sig, name)
		}
		unknown := col.unknown[k]
		if unknown == 0 {
			continue
		}
		newViol += unknown
		w := col.first[k]
		path := filepath.Join(VerifDir, "replays", fmt.Sprintf("%s-%s.json", prop, sigSlug(sig)))
		b, _ := json.MarshalIndent(w, "", " ")
		os.WriteFile(path, b, 0o644)
		violLines = append(violLines, fmt.Sprintf("VIOLATION property=%s replay=%s", prop, path))
		fmt.Printf("  violation signature: %s (%d cases, %d not covered by a known finding)\n    first: %s\n", sig, col.count[k], unknown, w.Detail)
	}
	for _, f := range findings {
		if f.Prop != c.Prop {
			continue
		}
		if n := knownMatched[f.ID]; n > 0 {
			fmt.Printf("KNOWN-FINDING: property=%s %s [%s] (%d cases this run)\n", f.Prop, f.Text, f.ID, n)
		}
	}
	for _, l := range violLines {
		fmt.Println(l)
	}

	// evidence
	cov := c.Cov
	wall := time.Since(c.Start).Seconds()
	cv := map[string]any{
		"states":                        cov.States,
		"transitions":                   cov.Transitions,
		"traces_validated_against_impl": cov.Transitions,
		"evaluations":                   cov.Evaluations,
		"distinct_nontrivial":           int64(len(cov.distinct)) + cov.Nontrivial,
		"rule":                          cov.Rule,
		"samples":                       cov.samples,
		"exhaustive":                    cov.Exhaustive,
		"bound":                         cov.Bound,
	}
	if cov.Capped != "" {
		cv["capped"] = cov.Capped
	}
	for k, v := range cov.Extra {
		cv[k] = v
	}
	if len(col.Notes) > 0 {
		cv["notes"] = col.Notes
	}
	if len(knownMatched) > 0 {
		cv["known_findings_matched"] = knownMatched
	}
	if len(cov.samples) == 0 {
		cv["samples"] = []any{"(none recorded)"}
	}
	ev := evidenceFile{PropertyID: c.Prop, Tier: c.Tier, Seed: c.Seed, Level: "model_checking", Coverage: cv,
		Assumptions: append([]string{
			"SHA-512/256 and SHA-256 are collision free on the hash alphabet used",
			"the reference forest in /verif/vmc/ref is a faithful transcription of the property text",
			"the Go toolchain and runtime; reflection-based state dumps read the real object fields",
		}, c.Assume...),
		WallS: wall, Violations: newViol}
	evDir := filepath.Join(VerifDir, "evidence")
	if d := os.Getenv("VERIF_EVIDENCE_DIR"); d != "" {
		evDir = d // maintenance runs against deliberately broken trees must not overwrite the evidence
	}
	os.MkdirAll(evDir, 0o755)
	b, _ := json.MarshalIndent(ev, "", " ")
	if err := os.WriteFile(filepath.Join(evDir, c.Prop+".json"), b, 0o644); err != nil {
		fmt.Println("ERROR writing evidence:", err)
		return 2
	}
	fmt.Printf("%s %s: states=%d transitions=%d evaluations=%d distinct_nontrivial=%d exhaustive=%v wall=%.1fs violations=%d known=%d\n",
		c.Prop, c.Tier, cov.States, cov.Transitions, cov.Evaluations, cv["distinct_nontrivial"], cov.Exhaustive, wall, newViol, len(knownMatched))
	if newViol > 0 {
		return 1
	}
	return 0
}

func sigSlug(s string) string {
	var sb strings.Builder
	for _, r := range s {
		switch {
		case r >= 'a' && r <= 'z', r >= 'A' && r <= 'Z', r >= '0' && r <= '9':
			sb.WriteRune(r)
		default:
			sb.WriteByte('_')
		}
	}
	out := sb.String()
	if len(out) > 80 {
		h := sha256.Sum256([]byte(s))
		out = out[:70] + "_" + hex.EncodeToString(h[:4])
	}
	return out
}

// NewCtx builds the run context from the environment.
func NewCtx(prop, tier string) *Ctx {
	seed := int64(0)
	fmt.Sscan(os.Getenv("VERIF_SEED"), &seed)
	w := runtime.NumCPU()
	if v := os.Getenv("VERIF_WORKERS"); v != "" {
		fmt.Sscan(v, &w)
	}
	if w < 1 {
		w = 1
	}
	c := &Ctx{Prop: prop, Tier: tier, Seed: seed, Col: NewCollector(), Cov: NewCov(), Start: time.Now(), Workers: w}
	budget := 150 * time.Second
	if tier == "thorough" {
		budget = 25 * time.Minute
	}
	if v := os.Getenv("VERIF_BUDGET_S"); v != "" {
		var s int
		fmt.Sscan(v, &s)
		if s > 0 {
			budget = time.Duration(s) * time.Second
		}
	}
	c.Deadline = c.Start.Add(budget)
	return c
}

// Replay re-executes a recorded violation's case twice without the explorer and reports
// whether the same signature reproduces. Divergence between the two runs is a harness error.
func Replay(v Violation) int {
	eng, ok := Engines[v.Case.Engine]
	if !ok {
		fmt.Println("unknown engine", v.Case.Engine)
		return 2
	}
	var outs [2]string
	repro := false
	for i := 0; i < 2; i++ {
		vs, err := func() (vs []Violation, err error) {
			defer func() {
				if r := recover(); r != nil {
					vs = []Violation{panicViolation(v.Prop, r, debug.Stack(), v.Case, "")}
					vs[0].Detail = fmt.Sprint(r)
				}
			}()
			return eng(v.Prop, v.Case.Payload)
		}()
		if err != nil {
			fmt.Println("replay error:", err)
			return 2
		}
		var sb strings.Builder
		for _, w := range vs {
			fmt.Fprintf(&sb, "%s | %s | %s\n", w.Prop, w.Sig, w.Detail)
			if w.Prop == v.Prop && w.Sig == v.Sig {
				repro = true
			}
		}
		outs[i] = sb.String()
	}
	if outs[0] != outs[1] {
		fmt.Println("HARNESS ERROR: two replays of the same case gave different observations")
		fmt.Println(outs[0], "----", outs[1])
		return 3
	}
	fmt.Printf("case: %s %s\n", v.Case.Engine, string(v.Case.Payload))
	fmt.Print(outs[0])
	if repro {
		fmt.Printf("REPRODUCED property=%s signature=%q\n", v.Prop, v.Sig)
		return 1
	}
	fmt.Println("NOT REPRODUCED")
	return 0
}
