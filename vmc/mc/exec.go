package mc

import (
	"bytes"
	"fmt"
	"reflect"
	"sort"
	"strings"

	u "github.com/utreexo/utreexo"
	"vmc/ref"
)

type Hash = u.Hash

// Exec is the per-path execution context: every call into the library goes through it. It
// recovers panics, snapshots caller-owned slices (C17), remembers previously returned results
// and collects violations for the property being checked.
type Exec struct {
	ProofAnyway bool // see partial.go
	Prop   string      // property whose oracle clauses are reported
	CaseFn func() Case // builds the case being executed (attached to violations, lazily)
	cs     *Case
	Viol   []Violation
	Notes  []string
	held   []heldSlice
	calls  int
	// CaseID identifies the case independently of search parameters (see Violation.CaseID)
	CaseID string
}

type heldSlice struct {
	name string
	h    []Hash
	hc   []Hash
	t    []uint64
	tc   []uint64
}

func NewExec(prop string, c func() Case) *Exec { return &Exec{Prop: prop, CaseFn: c} }

func (x *Exec) theCase() Case {
	if x.cs == nil {
		c := x.CaseFn()
		x.cs = &c
	}
	return *x.cs
}

// Report records a violation of property prop (ignored, but noted, when another property is
// being checked).
func (x *Exec) Report(prop, sig, detail string) {
	if prop != x.Prop {
		x.Notes = append(x.Notes, "other:"+prop+" "+sig)
		return
	}
	x.Viol = append(x.Viol, Violation{Prop: prop, Sig: sig, Detail: detail, Case: x.theCase(), CaseID: x.CaseID})
}

func (x *Exec) Note(s string) { x.Notes = append(x.Notes, s) }

// safe runs f converting a panic into an error.
func safe(f func() error) (err error) {
	defer func() {
		if r := recover(); r != nil {
			err = fmt.Errorf("PANIC: %v", r)
		}
	}()
	return f()
}

func isPanic(err error) bool { return err != nil && strings.HasPrefix(err.Error(), "PANIC:") }

// ---- C17 support ----

type argSnap struct {
	x        *Exec
	call     string
	names    []string
	hs       [][]Hash
	hcs      [][]Hash
	ts       [][]uint64
	tcs      [][]uint64
	tn       []string
	leafRefs [][]u.Leaf
}

func (x *Exec) snap(call string) *argSnap { return &argSnap{x: x, call: call} }

func (a *argSnap) H(name string, s []Hash) *argSnap {
	a.names = append(a.names, name)
	a.hs = append(a.hs, s)
	a.hcs = append(a.hcs, append([]Hash(nil), s...))
	return a
}

func (a *argSnap) T(name string, s []uint64) *argSnap {
	a.tn = append(a.tn, name)
	a.ts = append(a.ts, s)
	a.tcs = append(a.tcs, append([]uint64(nil), s...))
	return a
}

func (a *argSnap) P(name string, p u.Proof) *argSnap {
	return a.T(name+".Targets", p.Targets).H(name+".Proof", p.Proof)
}

func (a *argSnap) L(name string, ls []u.Leaf) *argSnap {
	hs := make([]Hash, len(ls))
	for i := range ls {
		hs[i] = ls[i].Hash
	}
	// leaves are structs; compare hashes through a parallel copy taken now and re-read later
	a.names = append(a.names, name+"#leaf")
	a.hs = append(a.hs, nil)
	a.hcs = append(a.hcs, hs)
	a.leafRefs = append(a.leafRefs, ls)
	return a
}

func eqH(a, b []Hash) bool {
	if len(a) != len(b) {
		return false
	}
	for i := range a {
		if a[i] != b[i] {
			return false
		}
	}
	return true
}

func eqT(a, b []uint64) bool {
	if len(a) != len(b) {
		return false
	}
	for i := range a {
		if a[i] != b[i] {
			return false
		}
	}
	return true
}

// check compares the arguments with their snapshots; a mutated argument is restored so that
// one defect is not reported as a cascade.
func (a *argSnap) check() {
	li := 0
	for i, name := range a.names {
		if strings.HasSuffix(name, "#leaf") {
			ls := a.leafRefs[li]
			li++
			for j := range ls {
				if ls[j].Hash != a.hcs[i][j] {
					a.x.Report("C17", a.call+" mutated argument "+strings.TrimSuffix(name, "#leaf"), fmt.Sprintf("element %d changed", j))
					ls[j].Hash = a.hcs[i][j]
				}
			}
			continue
		}
		if !eqH(a.hs[i], a.hcs[i]) {
			a.x.Report("C17", a.call+" mutated argument "+name, fmt.Sprintf("before %s after %s", shortHs(a.hcs[i]), shortHs(a.hs[i])))
			copy(a.hs[i], a.hcs[i])
		}
	}
	for i, name := range a.tn {
		if !eqT(a.ts[i], a.tcs[i]) {
			a.x.Report("C17", a.call+" mutated argument "+name, fmt.Sprintf("before %v after %v", a.tcs[i], a.ts[i]))
			copy(a.ts[i], a.tcs[i])
		}
	}
}

// HoldH / HoldT register a result returned by the library; CheckHeld verifies that no later
// call changed it.
func (x *Exec) HoldH(name string, s []Hash) {
	x.held = append(x.held, heldSlice{name: name, h: s, hc: append([]Hash(nil), s...)})
}
func (x *Exec) HoldT(name string, s []uint64) {
	x.held = append(x.held, heldSlice{name: name, t: s, tc: append([]uint64(nil), s...)})
}
func (x *Exec) HoldP(name string, p u.Proof) {
	x.HoldT(name+".Targets", p.Targets)
	x.HoldH(name+".Proof", p.Proof)
}

func (x *Exec) CheckHeld() {
	for i := range x.held {
		hd := &x.held[i]
		if hd.h != nil && !eqH(hd.h, hd.hc) {
			x.Report("C17", "previously returned "+hd.name+" changed by a later call", fmt.Sprintf("was %s now %s", shortHs(hd.hc), shortHs(hd.h)))
			copy(hd.h, hd.hc)
		}
		if hd.t != nil && !eqT(hd.t, hd.tc) {
			x.Report("C17", "previously returned "+hd.name+" changed by a later call", fmt.Sprintf("was %v now %v", hd.tc, hd.t))
			copy(hd.t, hd.tc)
		}
	}
}

func shortHs(hs []Hash) string {
	var sb strings.Builder
	sb.WriteByte('[')
	for i, h := range hs {
		if i > 0 {
			sb.WriteByte(' ')
		}
		fmt.Fprintf(&sb, "%x", h[:3])
	}
	sb.WriteByte(']')
	return sb.String()
}

// ---- wrapped library calls ----

func (x *Exec) Modify(name string, acc u.Utreexo, leaves []u.Leaf, dh []Hash, proof u.Proof) error {
	x.calls++
	s := x.snap(name+".Modify").L("adds", leaves).H("delHashes", dh).P("proof", proof)
	err := safe(func() error { return acc.Modify(leaves, dh, proof) })
	s.check()
	return err
}

func (x *Exec) Undo(name string, acc u.Utreexo, numAdds uint64, proof u.Proof, dh, prevRoots []Hash) error {
	x.calls++
	s := x.snap(name+".Undo").H("delHashes", dh).P("proof", proof).H("prevRoots", prevRoots)
	err := safe(func() error { return acc.Undo(numAdds, proof, dh, prevRoots) })
	s.check()
	return err
}

func (x *Exec) Prove(name string, acc u.Utreexo, hs []Hash) (u.Proof, error) {
	x.calls++
	s := x.snap(name+".Prove").H("hashes", hs)
	var p u.Proof
	err := safe(func() error {
		var e error
		p, e = acc.Prove(hs)
		return e
	})
	s.check()
	return p, err
}

func (x *Exec) VerifyAcc(name string, acc u.Utreexo, hs []Hash, proof u.Proof, remember bool) error {
	x.calls++
	s := x.snap(name+".Verify").H("delHashes", hs).P("proof", proof)
	err := safe(func() error { return acc.Verify(hs, proof, remember) })
	s.check()
	return err
}

func (x *Exec) Verify(stump u.Stump, hs []Hash, proof u.Proof) ([]int, error) {
	x.calls++
	s := x.snap("Verify").H("delHashes", hs).P("proof", proof).H("stump.Roots", stump.Roots)
	var idx []int
	err := safe(func() error {
		var e error
		idx, e = u.Verify(stump, hs, proof)
		return e
	})
	s.check()
	return idx, err
}

func (x *Exec) StumpUpdate(st *u.Stump, dh, adds []Hash, proof u.Proof) (u.UpdateData, error) {
	x.calls++
	s := x.snap("Stump.Update").H("delHashes", dh).H("addHashes", adds).P("proof", proof)
	var ud u.UpdateData
	err := safe(func() error {
		var e error
		ud, e = st.Update(dh, adds, proof)
		return e
	})
	s.check()
	return ud, err
}

func (x *Exec) Ingest(name string, m *u.MapPollard, hs []Hash, proof u.Proof) error {
	x.calls++
	s := x.snap(name+".Ingest").H("delHashes", hs).P("proof", proof)
	err := safe(func() error { return m.Ingest(hs, proof) })
	s.check()
	return err
}

func (x *Exec) Prune(name string, m *u.MapPollard, hs []Hash) error {
	x.calls++
	s := x.snap(name+".Prune").H("hashes", hs)
	err := safe(func() error { return m.Prune(hs) })
	s.check()
	return err
}

// ---- concrete state dumps (canonical, for the seen-set) ----

// DumpMap is a canonical dump of a MapPollard's concrete state.
func DumpMap(m *u.MapPollard) string {
	var sb strings.Builder
	fmt.Fprintf(&sb, "N=%d TR=%d F=%v;", m.NumLeaves, m.TotalRows, m.Full)
	type kv struct {
		k uint64
		v u.Leaf
	}
	var ns []kv
	m.Nodes.ForEach(func(k uint64, v u.Leaf) error { ns = append(ns, kv{k, v}); return nil })
	sort.Slice(ns, func(i, j int) bool { return ns[i].k < ns[j].k })
	for _, e := range ns {
		r := 0
		if e.v.Remember {
			r = 1
		}
		fmt.Fprintf(&sb, "%d:%x:%d,", e.k, e.v.Hash[:8], r)
	}
	sb.WriteString("|")
	type kc struct {
		k Hash
		v uint64
	}
	var cs []kc
	m.CachedLeaves.ForEach(func(k Hash, v uint64) error { cs = append(cs, kc{k, v}); return nil })
	sort.Slice(cs, func(i, j int) bool {
		if cs[i].v != cs[j].v {
			return cs[i].v < cs[j].v
		}
		return bytes.Compare(cs[i].k[:], cs[j].k[:]) < 0
	})
	for _, e := range cs {
		fmt.Fprintf(&sb, "%x@%d,", e.k[:8], e.v)
	}
	return sb.String()
}

// DumpPollard is a canonical dump of a Pollard's concrete pointer structure, read by
// reflection (unexported fields are read, never written). If the layout of polNode changes
// beyond recognition it falls back to the serialized form.
func DumpPollard(p *u.Pollard) (out string) {
	defer func() {
		if r := recover(); r != nil {
			var buf bytes.Buffer
			p.WriteTo(&buf)
			out = fmt.Sprintf("ser:N=%d D=%d %x", p.NumLeaves, p.NumDels, buf.Bytes())
		}
	}()
	var sb strings.Builder
	fmt.Fprintf(&sb, "N=%d D=%d;", p.NumLeaves, p.NumDels)
	ids := map[uintptr]int{}
	var walk func(n reflect.Value)
	walk = func(n reflect.Value) {
		if n.IsNil() {
			sb.WriteString("-")
			return
		}
		ptr := n.Pointer()
		if id, ok := ids[ptr]; ok {
			fmt.Fprintf(&sb, "^%d", id)
			return
		}
		id := len(ids)
		ids[ptr] = id
		e := n.Elem()
		data := e.FieldByName("data")
		sb.WriteString("(")
		for i := 0; i < 8; i++ {
			fmt.Fprintf(&sb, "%02x", data.Index(i).Uint())
		}
		if e.FieldByName("remember").Bool() {
			sb.WriteString("R")
		}
		aunt := e.FieldByName("aunt")
		if aunt.IsNil() {
			sb.WriteString(" a-")
		} else if aid, ok := ids[aunt.Pointer()]; ok {
			fmt.Fprintf(&sb, " a%d", aid)
		} else {
			sb.WriteString(" a?")
		}
		sb.WriteString(" ")
		walk(e.FieldByName("lNiece"))
		sb.WriteString(" ")
		walk(e.FieldByName("rNiece"))
		sb.WriteString(")")
	}
	v := reflect.ValueOf(p).Elem()
	roots := v.FieldByName("Roots")
	for i := 0; i < roots.Len(); i++ {
		walk(roots.Index(i))
		sb.WriteString(";")
	}
	nm := v.FieldByName("NodeMap")
	var entries []string
	it := nm.MapRange()
	for it.Next() {
		k := it.Key()
		var ks strings.Builder
		for i := 0; i < k.Len(); i++ {
			fmt.Fprintf(&ks, "%02x", k.Index(i).Uint())
		}
		val := it.Value()
		id := -1
		if !val.IsNil() {
			if x, ok := ids[val.Pointer()]; ok {
				id = x
			}
		}
		entries = append(entries, fmt.Sprintf("%s>%d", ks.String(), id))
	}
	sort.Strings(entries)
	sb.WriteString("M:")
	sb.WriteString(strings.Join(entries, ","))
	return sb.String()
}

// PollardTracked returns len(NodeMap).
func PollardTracked(p *u.Pollard) int { return len(p.NodeMap) }

// ---- helpers shared by the families ----

func leavesFor(first, n int, remember func(i int) bool) []u.Leaf {
	out := make([]u.Leaf, n)
	for i := 0; i < n; i++ {
		out[i] = u.Leaf{Hash: ref.LeafHash(first + i)}
		if remember != nil {
			out[i].Remember = remember(i)
		}
	}
	return out
}

func hashesFor(first, n int) []Hash {
	out := make([]Hash, n)
	for i := 0; i < n; i++ {
		out[i] = ref.LeafHash(first + i)
	}
	return out
}

func subsets(items []int, includeEmpty bool) [][]int {
	var out [][]int
	start := 1
	if includeEmpty {
		start = 0
	}
	for mask := start; mask < 1<<uint(len(items)); mask++ {
		var s []int
		for j, it := range items {
			if mask&(1<<uint(j)) != 0 {
				s = append(s, it)
			}
		}
		out = append(out, s)
	}
	return out
}

func perms(a []int) [][]int {
	if len(a) <= 1 {
		return [][]int{append([]int{}, a...)}
	}
	var out [][]int
	for i := range a {
		rest := append(append([]int{}, a[:i]...), a[i+1:]...)
		for _, p := range perms(rest) {
			out = append(out, append([]int{a[i]}, p...))
		}
	}
	return out
}

func eqProof(a, b u.Proof) bool { return eqT(a.Targets, b.Targets) && eqH(a.Proof, b.Proof) }

func proofStr(p u.Proof) string { return fmt.Sprintf("{T:%v P:%s}", p.Targets, shortHs(p.Proof)) }
