package mc

import (
	"bytes"
	"encoding/json"
	"errors"
	"fmt"
	"io"
	"runtime/debug"
	"sort"

	u "github.com/utreexo/utreexo"
	"vmc/ref"
)

// E4 `faults`: reader/writer fault enumeration for serialization (C13).

// ---- deterministic map iteration for MapPollard.Write ----

type orderedNodes struct {
	u.NodesInterface
	desc bool
}

func (o *orderedNodes) ForEach(fn func(uint64, u.Leaf) error) error {
	type kv struct {
		k uint64
		v u.Leaf
	}
	var all []kv
	o.NodesInterface.ForEach(func(k uint64, v u.Leaf) error { all = append(all, kv{k, v}); return nil })
	sort.Slice(all, func(i, j int) bool {
		if o.desc {
			return all[i].k > all[j].k
		}
		return all[i].k < all[j].k
	})
	for _, e := range all {
		if err := fn(e.k, e.v); err != nil {
			return err
		}
	}
	return nil
}

type orderedCached struct {
	u.CachedLeavesInterface
	desc bool
}

func (o *orderedCached) ForEach(fn func(Hash, uint64) error) error {
	type kv struct {
		k Hash
		v uint64
	}
	var all []kv
	o.CachedLeavesInterface.ForEach(func(k Hash, v uint64) error { all = append(all, kv{k, v}); return nil })
	sort.Slice(all, func(i, j int) bool {
		// a total order: a broken forest may cache two leaves at one position, and ties left to the
		// underlying map's random order would make executions irreproducible
		if all[i].v == all[j].v {
			return (bytes.Compare(all[i].k[:], all[j].k[:]) < 0) != o.desc
		}
		if o.desc {
			return all[i].v > all[j].v
		}
		return all[i].v < all[j].v
	})
	for _, e := range all {
		if err := fn(e.k, e.v); err != nil {
			return err
		}
	}
	return nil
}

// ---- readers and sinks ----

// chunkReader hands out data in reads of the given sizes (then `rest` sized reads; rest<=0 means
// "as much as asked"). With eofWithData the read that delivers the last byte also returns io.EOF.
type chunkReader struct {
	data        []byte
	off         int
	sizes       []int
	rest        int
	eofWithData bool
	calls       int
}

func (r *chunkReader) Read(p []byte) (int, error) {
	if len(p) == 0 {
		return 0, nil
	}
	if r.off >= len(r.data) {
		return 0, io.EOF
	}
	n := len(p)
	lim := r.rest
	if r.calls < len(r.sizes) {
		lim = r.sizes[r.calls]
	}
	r.calls++
	if lim > 0 && n > lim {
		n = lim
	}
	if n > len(r.data)-r.off {
		n = len(r.data) - r.off
	}
	copy(p, r.data[r.off:r.off+n])
	r.off += n
	if r.eofWithData && r.off == len(r.data) {
		return n, io.EOF
	}
	return n, nil
}

var errSink = errors.New("sink failed")

// failSink accepts exactly `limit` bytes (limit<0: unlimited) and fails at call number failCall
// (failCall<0: never); a write crossing the byte limit is a short write with an error.
type failSink struct {
	buf      bytes.Buffer
	limit    int
	failCall int
	calls    int
}

func (s *failSink) Write(p []byte) (int, error) {
	if s.failCall >= 0 && s.calls == s.failCall {
		s.calls++
		return 0, errSink
	}
	s.calls++
	if s.limit >= 0 && s.buf.Len()+len(p) > s.limit {
		n := s.limit - s.buf.Len()
		s.buf.Write(p[:n])
		return n, errSink
	}
	return s.buf.Write(p)
}

// ---- the case ----

type faultCase struct {
	Hist    []Op   `json:"history"`
	Inst    int    `json:"instance"`
	Order   string `json:"mapOrder,omitempty"` // asc | desc (MapPollard.Write iteration order)
	Kind    string `json:"kind"`               // chunks | prefix | sinkbytes | sinkcall
	Sizes   []int  `json:"sizes,omitempty"`
	Rest    int    `json:"rest,omitempty"`
	EOFData bool   `json:"eofWithData,omitempty"`
	K       int    `json:"k,omitempty"`     // prefix length / sink byte limit / sink failing call
	Sweep   bool   `json:"sweep,omitempty"` // size sweep: lighter proof oracle (singletons, neighbours, all)
}

var faultInsts = []InstCfg{
	{Kind: "pollard"},
	{Kind: "map", Full: true, TR: 0},
	{Kind: "map", Full: true, TR: 63},
	{Kind: "map", Full: false, TR: 0, Mode: "all"},
	{Kind: "map", Full: false, TR: 3, Mode: "even"},
	{Kind: "map", Full: false, TR: 63, Mode: "even"},
}

// faultSetup replays the history on one instance and serializes it; it returns the instance,
// the model and the bytes.
func faultSetup(x *Exec, fc faultCase) (*HistFamily, []*inst, *histModel, []byte, bool) {
	cfg := faultInsts[fc.Inst]
	fam := &HistFamily{Nmax: 64, Insts: []InstCfg{cfg}, Or: HistOracle{Roots: true, Lookups: true, Proofs: true, ProofSets: "small", Prop: "C13"}, PermLimit: 2}
	if fc.Sweep || len(fc.Hist) > 0 && fc.Hist[0].Adds > 20 {
		fam.Or.ProofSets = "tall"
	}
	insts, md, ok := fam.run(x, fc.Hist)
	if !ok {
		return fam, nil, nil, nil, false
	}
	in := insts[0]
	var buf bytes.Buffer
	if in.pol != nil {
		n, err := in.pol.WriteTo(&buf)
		if err != nil {
			x.Report("C13", "WriteTo fails on a working sink", err.Error())
			return fam, nil, nil, nil, false
		}
		if int(n) != buf.Len() || in.pol.SerializeSize() != buf.Len() {
			x.Report("C13", "Pollard write byte counts disagree", fmt.Sprintf("returned %d, produced %d, SerializeSize %d", n, buf.Len(), in.pol.SerializeSize()))
		}
	} else {
		in.m.Nodes = &orderedNodes{in.m.Nodes, fc.Order == "desc"}
		in.m.CachedLeaves = &orderedCached{in.m.CachedLeaves, fc.Order == "desc"}
		n, err := in.m.Write(&buf)
		if err != nil {
			x.Report("C13", "Write fails on a working sink", err.Error())
			return fam, nil, nil, nil, false
		}
		if n != buf.Len() {
			x.Report("C13", "MapPollard write byte count differs from the bytes produced", fmt.Sprintf("returned %d, produced %d", n, buf.Len()))
		}
	}
	return fam, insts, md, buf.Bytes(), true
}

// restoreFrom restores an instance of the same kind from r. It returns the restored instance
// (nil on error), the byte count returned and the error (panics are recovered).
func restoreFrom(in *inst, r io.Reader) (*inst, int, error) {
	out := &inst{cfg: in.cfg, tracked: in.tracked}
	var n int
	err := safe(func() error {
		if in.pol != nil {
			nr, p2, e := u.RestorePollardFrom(r)
			n = int(nr)
			if e != nil {
				return e
			}
			if p2 == nil {
				return errors.New("nil pollard without error")
			}
			out.pol, out.acc = p2, p2
			return nil
		}
		m2 := u.NewMapPollard(in.cfg.Full)
		nr, e := m2.Read(r)
		n = nr
		if e != nil {
			return e
		}
		out.m, out.acc = &m2, &m2
		return nil
	})
	if err != nil {
		return nil, n, err
	}
	return out, n, nil
}

func dumpInst(in *inst) string {
	if in.pol != nil {
		return DumpPollard(in.pol)
	}
	return DumpMap(in.m)
}

func evalFault(x *Exec, fc faultCase) (evals int64) {
	fam, insts, md, data, ok := faultSetup(x, fc)
	if !ok {
		return 0
	}
	in := insts[0]
	class := in.cfg.Class()
	L := len(data)
	switch fc.Kind {
	case "chunks":
		r := &chunkReader{data: data, sizes: fc.Sizes, rest: fc.Rest, eofWithData: fc.EOFData}
		got, n, err := restoreFrom(in, r)
		evals++
		desc := fmt.Sprintf("read sizes %v then %d, data-with-EOF=%v, stream %d bytes", fc.Sizes, fc.Rest, fc.EOFData, L)
		if err != nil {
			if isPanic(err) {
				x.Report("C13", "restore panics on a valid stream: "+class, desc+": "+err.Error())
			} else {
				x.Report("C13", "restore fails on a valid stream delivered by a conforming reader: "+class, desc+": "+err.Error())
			}
			return
		}
		if n != L {
			x.Report("C13", "restore reports a byte count different from the stream length: "+class, fmt.Sprintf("%s: returned %d", desc, n))
		}
		// the restored instance must be observationally identical to the original
		before := len(x.Viol)
		evals += fam.observe(x, []*inst{got}, md, true)
		if len(x.Viol) > before {
			for i := before; i < len(x.Viol); i++ {
				x.Viol[i].Sig = "restored forest differs from the original: " + x.Viol[i].Sig
				x.Viol[i].Detail = desc + ": " + x.Viol[i].Detail
			}
		}
	case "prefix":
		r := &chunkReader{data: data[:fc.K], sizes: nil, rest: fc.Rest, eofWithData: fc.EOFData}
		got, _, err := restoreFrom(in, r)
		evals++
		desc := fmt.Sprintf("prefix of %d of %d bytes, read size %d, data-with-EOF=%v", fc.K, L, fc.Rest, fc.EOFData)
		if err != nil {
			if isPanic(err) {
				x.Report("C13", "restore panics on a truncated stream: "+class, desc+": "+err.Error())
			}
			return
		}
		// accepted: must be identical to the original
		whole, _, werr := restoreFrom(in, bytes.NewReader(data))
		if werr != nil {
			return // reported by the chunks family
		}
		if dumpInst(got) != dumpInst(whole) {
			x.Report("C13", "a strict prefix of a valid stream is accepted and yields a different forest: "+class, desc)
		}
	case "sinkbytes", "sinkcall":
		s := &failSink{limit: -1, failCall: -1}
		if fc.Kind == "sinkbytes" {
			s.limit = fc.K
		} else {
			s.failCall = fc.K
		}
		evals++
		var err error
		if in.pol != nil {
			err = safe(func() error { _, e := in.pol.WriteTo(s); return e })
		} else {
			err = safe(func() error { _, e := in.m.Write(s); return e })
		}
		desc := fmt.Sprintf("%s k=%d of %d bytes", fc.Kind, fc.K, L)
		if isPanic(err) {
			x.Report("C13", "write panics when the sink fails: "+class, desc+": "+err.Error())
		} else if err == nil {
			x.Report("C13", "write reports success although the sink failed part-way: "+class, desc)
		}
	}
	return
}

func init() {
	Engines["fault"] = func(prop string, payload json.RawMessage) ([]Violation, error) {
		var fc faultCase
		if err := json.Unmarshal(payload, &fc); err != nil {
			return nil, err
		}
		x := NewExec(prop, func() Case { return Case{Engine: "fault", Payload: payload} })
		evalFault(x, fc)
		return x.Viol, nil
	}

	Checks["C13"] = func(c *Ctx) {
		ncat := pick(c, 5, 7)
		c.Cov.Rule = "states = all states of the forward BFS with N<=Ncat on Pollard and MapPollard (full TR 0/63, partial remember-all TR 0, remember-even TR 3/63), map iteration order of MapPollard.Write owned by the harness (ascending, descending); per (state, instance): (a) restore through conforming readers: whole, fixed chunk sizes {1,2,3,5,7,8,9,16,31,32,33,34,64,L/2,L-1}, each also with data-with-EOF on the last read, and every sequence of four first read sizes over {1,2,8,33} followed by whole reads; the restored forest must match the reference model on roots, leaf count, positions, GetHash, provable set and proofs, and all byte counts and SerializeSize must equal the stream length; (b) every strict prefix under whole, 1-byte and data-with-EOF readers: error, or a forest identical to the original, never a panic; (c) a sink that accepts exactly k bytes for every k<L and one that fails at call i for every i: an error, never a panic; (d) a second BFS with serialize/restore as a transition (budget 1) followed by every later block and by Undo of blocks applied before the restore, full observational oracle plus a differential comparison (GetHash on every position, every leaf position) with a twin instance that was never serialized; larger structured states (40..600 leaves, streams up to 20 KB) get the same treatment; a size sweep serializes every forest size from 1 to Nsweep leaves (all alive / one deletion) through three readers and two truncations; non-trivial = fault points on states with a dead leaf"
		c.Cov.Bound["Ncat"] = ncat
		collect := &HistFamily{Nmax: ncat, Insts: []InstCfg{{Kind: "pollard"}, {Kind: "map", Full: true, TR: 0}, {Kind: "map", Full: false, TR: 0, Mode: "all"}}, Or: HistOracle{Prop: "C13"}}
		type task struct {
			hist  []Op
			inst  int
			ord   string
			dead  bool
			sweep bool // size sweep: whole / 7-byte / data-with-EOF readers and the two longest prefixes only
		}
		var tasks []task
		sub := NewCov()
		cc := *c
		cc.Cov = sub
		BFSCollect(&cc, collect, 0, func(n *Node) {
			md := n.Model.(*histModel)
			for i, cfg := range faultInsts {
				ords := []string{"asc"}
				if cfg.Kind == "map" {
					ords = append(ords, "desc")
				}
				for _, o := range ords {
					tasks = append(tasks, task{hist: n.Hist, inst: i, ord: o, dead: md.s.NumLive() < md.s.N()})
				}
			}
		})
		c.Cov.AddStates(sub.States)
		// larger structured states (streams of 1.5-20 KB; counts beyond 255 nodes): for these the
		// truncation points are every byte for streams up to 4 KB and every 7th byte plus the last
		// 64 beyond that
		rng := func(a, b int) []int {
			var x []int
			for i := a; i < b; i++ {
				x = append(x, i)
			}
			return x
		}
		evens := func(n int) []int {
			var x []int
			for i := 0; i < n; i += 2 {
				x = append(x, i)
			}
			return x
		}
		bigHists := [][]Op{
			{{Kind: "block", Adds: 40}, {Kind: "block", Dels: evens(40), Adds: 3}},
			{{Kind: "block", Adds: 33}, {Kind: "block", Dels: rng(0, 32), Adds: 0}, {Kind: "block", Adds: 2}},
		}
		if c.Thorough() {
			bigHists = append(bigHists,
				[]Op{{Kind: "block", Adds: 300}, {Kind: "block", Dels: rng(0, 256), Adds: 1}},
				[]Op{{Kind: "block", Adds: 600}, {Kind: "block", Dels: evens(300), Adds: 0}})
		}
		c.Cov.Bound["large_states"] = len(bigHists)
		for _, h := range bigHists {
			for i, cfg := range faultInsts {
				ords := []string{"asc"}
				if cfg.Kind == "map" {
					ords = append(ords, "desc")
				}
				for _, o := range ords {
					tasks = append(tasks, task{hist: h, inst: i, ord: o, dead: true})
				}
			}
		}
		c.Cov.AddStates(int64(len(bigHists)))
		// size sweep: every forest size 1..Nsweep (all alive, and with leaf 0 deleted), so that every
		// node / record count up to a few hundred is serialized at least once
		nsweep := pick(c, 140, 700)
		c.Cov.Bound["size_sweep"] = fmt.Sprintf("1..%d leaves", nsweep)
		for N := 1; N <= nsweep; N++ {
			for _, h := range [][]Op{{{Kind: "block", Adds: N}}, {{Kind: "block", Adds: N}, {Kind: "block", Dels: []int{0}}}} {
				for _, i := range []int{0, 1, 3, 4} {
					tasks = append(tasks, task{hist: h, inst: i, ord: "asc", dead: len(h) > 1, sweep: true})
				}
			}
		}
		c.Cov.AddStates(int64(2 * nsweep))
		fixed := []int{1, 2, 3, 5, 7, 8, 9, 16, 31, 32, 33, 34, 64}
		firsts := []int{1, 2, 8, 33}
		ok := parallelFor(c, len(tasks), func(i int) {
			tk := tasks[i]
			base := faultCase{Hist: tk.hist, Inst: tk.inst, Order: tk.ord}
			x0 := NewExec("C13", func() Case { return mkCase("fault", base) })
			_, _, _, data, okk := faultSetup(x0, base)
			c.Col.Add(x0.Viol...)
			if !okk {
				return
			}
			L := len(data)
			var cases []faultCase
			add := func(fc faultCase) {
				fc.Hist, fc.Inst, fc.Order, fc.Sweep = tk.hist, tk.inst, tk.ord, tk.sweep
				cases = append(cases, fc)
			}
			add(faultCase{Kind: "chunks"})
			add(faultCase{Kind: "chunks", EOFData: true})
			if tk.sweep {
				add(faultCase{Kind: "chunks", Rest: 7})
				add(faultCase{Kind: "prefix", K: L - 1})
				if L > 41 {
					add(faultCase{Kind: "prefix", K: L - 41})
				}
				var evals int64
				for _, fc := range cases {
					fc := fc
					x := NewExec("C13", func() Case { return mkCase("fault", fc) })
					evals += evalFault(x, fc)
					c.Col.Add(x.Viol...)
				}
				c.Cov.AddTransitions(int64(len(cases)))
				c.Cov.AddEvals(evals)
				c.Cov.AddExtra("fault_points", int64(len(cases)))
				return
			}
			sizes := append([]int(nil), fixed...)
			if L/2 > 0 {
				sizes = append(sizes, L/2)
			}
			if L-1 > 0 {
				sizes = append(sizes, L-1)
			}
			for _, sz := range sizes {
				add(faultCase{Kind: "chunks", Rest: sz})
				add(faultCase{Kind: "chunks", Rest: sz, EOFData: true})
			}
			for _, a := range firsts {
				for _, b := range firsts {
					for _, cc := range firsts {
						for _, d := range firsts {
							add(faultCase{Kind: "chunks", Sizes: []int{a, b, cc, d}})
						}
					}
				}
			}
			for k := 0; k < L; k++ {
				if L > 4096 && k%7 != 0 && k < L-64 {
					continue
				}
				add(faultCase{Kind: "prefix", K: k})
				add(faultCase{Kind: "prefix", K: k, Rest: 1})
				add(faultCase{Kind: "prefix", K: k, EOFData: true})
				add(faultCase{Kind: "sinkbytes", K: k})
			}
			// number of Write calls: count with an unlimited sink
			cs := &failSink{limit: -1, failCall: -1}
			x1 := NewExec("C13", func() Case { return mkCase("fault", base) })
			_, insts, _, _, _ := faultSetup(x1, base)
			if insts != nil {
				if insts[0].pol != nil {
					insts[0].pol.WriteTo(cs)
				} else {
					insts[0].m.Write(cs)
				}
			}
			for i := 0; i < cs.calls; i++ {
				add(faultCase{Kind: "sinkcall", K: i})
			}
			var evals int64
			for _, fc := range cases {
				fc := fc
				x := NewExec("C13", func() Case { return mkCase("fault", fc) })
				evals += evalFault(x, fc)
				c.Col.Add(x.Viol...)
				for _, n := range x.Notes {
					c.Col.Note(n)
				}
			}
			c.Cov.AddTransitions(int64(len(cases)))
			c.Cov.AddEvals(evals)
			c.Cov.AddExtra("fault_points", int64(len(cases)))
			if tk.dead {
				c.Cov.AddNontrivial(int64(len(cases)))
			}
			if i%97 == 0 && len(cases) > 0 {
				c.Cov.Sample(cases[len(cases)/2])
			}
		})
		if !ok {
			c.Cov.NotExhaustive("deadline reached during fault enumeration")
		}
		// (d) restore as a transition, then evolve
		trs := pick(c, []uint8{0, 63}, []uint8{0, 3, 63})
		nd := pick(c, 4, 5)
		c.Cov.Bound["D.Nmax"] = nd
		c.Cov.Bound["D.budgets"] = "roundtrip 1, undo 1"
		var twins []InstCfg
		for _, cfg := range stdInsts(trs, []string{"all", "even"})[1:] {
			tw := cfg
			tw.NoRT = true
			twins = append(twins, cfg, tw)
		}
		famD := &HistFamily{
			Nmax:      nd,
			Insts:     twins,
			Or:        HistOracle{Roots: true, Proofs: true, Lookups: true, Twin: true, Prop: "C13", OnlyAfter: "roundtrip", ProofSets: "small"},
			UndoBud:   1,
			RTBud:     1,
			PermLimit: 2,
		}
		if !c.Expired() {
			BFS(c, famD, 0)
		}
		// (f) map forests started from the bare roots of accumulators with 2^5 .. 2^63-4 leaves (plus
		// 0..2 added leaves, remembered): written, restored into a fresh instance, compared
		{
			var evals int64
			sts := offsetStates(offsetBases(c.Thorough()), 2)
			c.Cov.Bound["F.offset_start_states"] = len(sts)
			for _, st := range sts {
				for _, full := range []bool{false, true} {
					evals++
					c.Col.Add(evalFromRootsRT(fromRootsRT{Base: st.Base, Full: full, N: st.N(), Alive: boolKey(st.Alive)})...)
				}
			}
			c.Cov.AddStates(int64(len(sts)))
			c.Cov.AddTransitions(evals)
			c.Cov.AddEvals(evals)
		}
		// (e) size prediction under query schedules: SerializeSize / GetTotalCount queried after no /
		// block / undo / every operation of a history with up to two undos; at the end of every
		// history the prediction and the returned counts must equal the bytes produced
		ne := pick(c, 4, 5)
		c.Cov.Bound["E.Nmax"] = ne
		c.Cov.Bound["E.size_query_schedules"] = "never, after blocks, after undos, always; undo budget 2"
		if !c.Expired() {
			BFS(c, &HistFamily{Nmax: ne, Insts: []InstCfg{{Kind: "pollard"}, {Kind: "pollard", SizeQ: "block"}, {Kind: "pollard", SizeQ: "undo"}, {Kind: "pollard", SizeQ: "all"}, {Kind: "map", Full: true, TR: 0}, {Kind: "map", Full: false, TR: 63, Mode: "even"}},
				Or: HistOracle{Sizes: true, Prop: "C13"}, UndoBud: 2}, 0)
		}
	}
}

// fromRootsRT: one case of C13 part (f).
type fromRootsRT struct {
	Base  uint64 `json:"base"`
	Full  bool   `json:"full"`
	N     int    `json:"added"`
	Alive string `json:"alive"`
}

func evalFromRootsRT(fc fromRootsRT) (out []Violation) {
	hist := fmt.Sprintf("fromroots base=%d full=%v add=%d alive=%s", fc.Base, fc.Full, fc.N, fc.Alive)
	cs := mkCase("fromroots-rt", fc)
	defer func() {
		if r := recover(); r != nil {
			out = append(out, panicViolation("C13", r, debug.Stack(), cs, hist))
		}
	}()
	rep := func(sig, detail string) {
		out = append(out, Violation{Prop: "C13", Sig: sig, Detail: hist + ": " + detail, Case: cs, CaseID: hist})
	}
	L := ref.APILayout(ref.State{Base: fc.Base})
	m := u.NewMapPollardFromRoots(append([]Hash(nil), L.Roots...), fc.Base, fc.Full)
	if fc.N > 0 {
		if err := m.Modify(leavesFor(0, fc.N, func(int) bool { return true }), nil, u.Proof{}); err != nil {
			return
		}
		var dels []int
		for i, ch := range fc.Alive {
			if ch != '1' {
				dels = append(dels, i)
			}
		}
		if len(dels) > 0 {
			full0 := ref.State{Base: fc.Base}.Apply(nil, fc.N)
			if err := m.Modify(nil, ref.Hashes(dels), ref.APILayout(full0).Proof(dels)); err != nil {
				return
			}
		}
	}
	var buf bytes.Buffer
	n, err := m.Write(&buf)
	if err != nil {
		rep("Write failed on a map forest started from bare roots", err.Error())
		return
	}
	if n != buf.Len() {
		rep("MapPollard write byte count disagrees", fmt.Sprintf("returned %d, produced %d", n, buf.Len()))
	}
	total := buf.Len()
	m2 := u.NewMapPollard(fc.Full)
	nr, err := m2.Read(&buf)
	if err != nil {
		rep("restore fails on a valid stream: map forest started from bare roots", fmt.Sprintf("%v (consumed %d of %d bytes)", err, nr, total))
		return
	}
	if nr != total {
		rep("restore reports a byte count different from the stream length: map forest started from bare roots", fmt.Sprintf("returned %d of %d", nr, total))
	}
	if a, b := DumpMap(&m), DumpMap(&m2); a != b {
		rep("restored map forest differs from the original (started from bare roots)", "dumps differ")
	}
	return
}

func init() {
	Engines["fromroots-rt"] = func(prop string, payload json.RawMessage) ([]Violation, error) {
		var fc fromRootsRT
		if err := json.Unmarshal(payload, &fc); err != nil {
			return nil, err
		}
		return evalFromRootsRT(fc), nil
	}
}
