package mc

import (
	"crypto/sha256"
	"fmt"
	"runtime/debug"
	"strings"
)

// Op is one operation of a history. The same type serves every history family and is what
// replay files contain.
type Op struct {
	Kind string `json:"k"`           // block | undo | verify | ingest | prune | roundtrip | fromroots
	Dels []int  `json:"d,omitempty"` // added-leaf indexes deleted by a block
	Adds int    `json:"a,omitempty"` // number of leaves a block appends
	Rem  []int  `json:"r,omitempty"` // indexes (within the block's additions) to remember
	Set  []int  `json:"s,omitempty"` // leaf set of verify / ingest / prune
	Enc  string `json:"e,omitempty"` // proof encoding variant, when relevant
}

func (o Op) String() string {
	switch o.Kind {
	case "block":
		s := fmt.Sprintf("block(del=%v add=%d", o.Dels, o.Adds)
		if o.Rem != nil {
			s += fmt.Sprintf(" rem=%v", o.Rem)
		}
		return s + ")"
	case "undo", "roundtrip", "fromroots":
		return o.Kind
	default:
		return fmt.Sprintf("%s(%v)", o.Kind, o.Set)
	}
}

func histStr(h []Op) string {
	var parts []string
	for _, o := range h {
		parts = append(parts, o.String())
	}
	return "[" + strings.Join(parts, "; ") + "]"
}

// Node is a state of an explicit-state search, identified by the shortest history reaching it.
type Node struct {
	Hist  []Op
	Model any // family specific abstract state, used to enumerate enabled operations
}

// StepResult is what executing one transition on the real code yields.
type StepResult struct {
	Next     *Node  // nil when the state is terminal (violated or blocked)
	Key      string // canonical key (abstract state + concrete dumps + budgets)
	Viol     []Violation
	Notes    []string
	Evals    int64 // oracle evaluations performed
	Nontriv  bool
	Terminal bool
}

// Family is a transition system whose transitions execute the real implementation.
type Family interface {
	Root() (*Node, string)
	Ops(n *Node) []Op
	// Step replays n.Hist plus op on fresh instances, evaluates the oracle on the new state
	// and returns it.
	Step(n *Node, op Op) StepResult
}

type keyHash [16]byte

func hashKey(s string) keyHash {
	h := sha256.Sum256([]byte(s))
	var k keyHash
	copy(k[:], h[:16])
	return k
}

// BFS explores fam breadth first, level by level, in parallel, deterministically (successors
// are merged in task order). It stops expanding at maxStates or at the deadline and records
// that in the coverage.
func BFS(c *Ctx, fam Family, maxStates int) { BFSCollect(c, fam, maxStates, nil) }

// BFSCollect is BFS with a callback invoked (sequentially) for every new state.
func BFSCollect(c *Ctx, fam Family, maxStates int, onState func(*Node)) {
	defer c.Phase(fmt.Sprintf("BFS %T", fam))()
	root, rk := fam.Root()
	seen := map[keyHash]struct{}{hashKey(rk): {}}
	abstract := map[string]struct{}{}
	frontier := []*Node{root}
	c.Cov.AddStates(1)
	if onState != nil {
		onState(root)
	}
	depth := 0
	type task struct {
		n  *Node
		op Op
	}
	const chunk = 8192
	for len(frontier) > 0 {
		var next []*Node
		// enumerate tasks lazily per chunk to bound memory
		var tasks []task
		flush := func() bool {
			if len(tasks) == 0 {
				return true
			}
			res := make([]StepResult, len(tasks))
			ok := parallelFor(c, len(tasks), func(i int) {
				res[i] = safeStep(c, fam, tasks[i].n, tasks[i].op)
			})
			if !ok {
				c.Cov.NotExhaustive(fmt.Sprintf("deadline reached at BFS depth %d", depth))
				tasks = tasks[:0]
				return false
			}
			for i := range res {
				r := &res[i]
				c.Cov.AddTransitions(1)
				c.Cov.AddEvals(r.Evals)
				c.Col.Add(r.Viol...)
				for _, nt := range r.Notes {
					c.Col.Note(nt)
				}
				if r.Next == nil {
					continue
				}
				kh := hashKey(r.Key)
				if _, dup := seen[kh]; dup {
					continue
				}
				seen[kh] = struct{}{}
				c.Cov.AddStates(1)
				if r.Nontriv {
					c.Cov.Distinct(r.Key)
				}
				if n := len(seen); n == 2 || n == 10 || n == 50 || n == 200 || n%4999 == 0 {
					c.Cov.Sample(histStr(r.Next.Hist))
				}
				if ak, ok := r.Next.Model.(interface{ AbstractKey() string }); ok {
					abstract[ak.AbstractKey()] = struct{}{}
				}
				if maxStates > 0 && len(seen) > maxStates {
					c.Cov.NotExhaustive(fmt.Sprintf("state cap %d reached at depth %d", maxStates, depth))
					continue
				}
				next = append(next, r.Next)
				if onState != nil {
					onState(r.Next)
				}
			}
			tasks = tasks[:0]
			return true
		}
		alive := true
		for _, n := range frontier {
			for _, op := range fam.Ops(n) {
				tasks = append(tasks, task{n, op})
				if len(tasks) >= chunk {
					if alive = flush(); !alive {
						break
					}
				}
			}
			if !alive {
				break
			}
		}
		if alive {
			alive = flush()
		}
		if !alive {
			break
		}
		frontier = next
		depth++
	}
	c.Cov.SetExtra("bfs_depth", depth)
	if len(abstract) > 0 {
		c.Cov.SetExtra("abstract_states", len(abstract))
	}
	c.Cov.Sample(histStr(root.Hist))
}

// CaseMaker is implemented by families that can describe the replayable case of a history.
type CaseMaker interface {
	CaseOf(hist []Op) (Case, string)
}

// safeStep is fam.Step with a net: a panic inside the library (in an operation of the history or in
// one of the oracle's queries) ends the path and is reported as a violation of the check's property
// with the history as its replayable case.
func safeStep(c *Ctx, fam Family, n *Node, op Op) (res StepResult) {
	defer func() {
		if r := recover(); r != nil {
			stack := debug.Stack()
			hist := append(append([]Op(nil), n.Hist...), op)
			cs, id := mkCase("panic", map[string]any{"history": histStr(hist), "stack": string(stack)}), histStr(hist)
			if cm, ok := fam.(CaseMaker); ok {
				cs, id = cm.CaseOf(hist)
			}
			res = StepResult{Terminal: true, Viol: []Violation{panicViolation(c.Prop, r, stack, cs, id)}}
		}
	}()
	return fam.Step(n, op)
}
