package mc

import (
	"encoding/json"
	"fmt"
	"sort"
	"strings"
	"sync/atomic"

	u "github.com/utreexo/utreexo"
	"vmc/ref"
)

// PartialFamily: explicit-state search over the life of one non-full MapPollard (C09):
// blocks with every Remember subset, Verify(remember=true), Ingest and Prune of arbitrary
// sets, Undo, and replacement by NewMapPollardFromRoots, for one TotalRows setting.
type PartialFamily struct {
	Nmax     int
	TR       uint8
	UndoBud  int
	FRBud    int  // "fromroots" transitions (instance replaced by NewMapPollardFromRoots)
	Junk     bool // also Verify(remember) with one trailing unused proof hash
	NoIngest bool
	Prop     string
	RemMode  string // "" every subset | "all" | "none"
	SetLimit int    // max size of verify/ingest/prune sets (0 = unlimited)
	Collect  string // when set, violations of this property are collected instead of Prop's
	Base     uint64 // > 0: started with NewMapPollardFromRoots on an accumulator of Base opaque leaves (TotalRows 63)
	UndoAs   string // when set, states reached through an Undo report their clauses under this property (C06)
	ArgRev   bool   // blocks, Verify(remember), Ingest, Prune and Undo get their targets / hashes in descending order
	Alloc    bool   // Verify(remember) is given its targets in the coordinates of the allocated height (documented as accepted)
	ProofOnly bool  // only the prover clauses of the oracle are reported (C02 reuses the family for partial forests that prune)
	Bad      bool   // after every operation the instance also receives calls that must change nothing: rejected
	// Verify(remember) / VerifyPartialProof(remember) (wrong leaf hash, wrong proof hash) and Prune of hashes it does not cache
	FullFR   bool   // the "fromroots" transition creates a FULL map forest (NewMapPollardFromRoots(..., true)); the
	// block transitions then remember every addition and the "stores nothing beyond" clause is dropped
}

type partFrame struct {
	prev     ref.State
	op       Op
	mustPrev []bool
}

type partModel struct {
	s       ref.State
	must    []bool // leaves the instance was asked to remember and has not deleted/pruned
	stack   []partFrame
	undoBud int
	frBud   int
	hasUndo bool
	fullNow bool // the instance is a full forest started from bare roots
}

func (m *partModel) AbstractKey() string { return m.s.Key() + "/" + boolKey(m.must) }

func (f *PartialFamily) Root() (*Node, string) {
	return &Node{Model: &partModel{s: ref.State{Base: f.Base}, undoBud: f.UndoBud, frBud: f.FRBud}}, "root"
}

func limitSets(sets [][]int, lim int) [][]int {
	if lim <= 0 {
		return sets
	}
	var out [][]int
	for _, s := range sets {
		if len(s) <= lim {
			out = append(out, s)
		}
	}
	return out
}

func (f *PartialFamily) Ops(n *Node) []Op {
	md := n.Model.(*partModel)
	var ops []Op
	live := md.s.Live()
	for _, dels := range subsets(live, true) {
		for adds := 0; md.s.N()+adds <= f.Nmax; adds++ {
			if adds == 0 && len(dels) == 0 {
				continue
			}
			if md.s.Total()+uint64(adds) > uint64(1)<<63 {
				break
			}
			idx := make([]int, adds)
			for i := range idx {
				idx[i] = i
			}
			switch f.RemMode {
			case "all":
				ops = append(ops, Op{Kind: "block", Dels: dels, Adds: adds, Rem: idx})
			case "none":
				ops = append(ops, Op{Kind: "block", Dels: dels, Adds: adds, Rem: []int{}})
			default:
				for _, rem := range subsets(idx, true) {
					if rem == nil {
						rem = []int{}
					}
					ops = append(ops, Op{Kind: "block", Dels: dels, Adds: adds, Rem: rem})
				}
			}
		}
	}
	for _, set := range limitSets(subsets(live, false), f.SetLimit) {
		if f.Alloc {
			ops = append(ops, Op{Kind: "verify", Set: set, Enc: "alloc"})
			continue
		}
		ops = append(ops, Op{Kind: "verify", Set: set})
		if f.Junk {
			ops = append(ops, Op{Kind: "verify", Set: set, Enc: "junk"})
		}
		if !f.NoIngest {
			ops = append(ops, Op{Kind: "ingest", Set: set})
		}
	}
	var cached []int
	for i, c := range md.must {
		if c && md.s.Alive[i] {
			cached = append(cached, i)
		}
	}
	for _, set := range limitSets(subsets(cached, false), f.SetLimit) {
		if md.fullNow {
			break // Prune is documented as a no-op on a full forest
		}
		ops = append(ops, Op{Kind: "prune", Set: set})
	}
	if md.undoBud > 0 && len(md.stack) > 0 {
		ops = append(ops, Op{Kind: "undo"})
	}
	if md.frBud > 0 && md.s.Total() > 0 {
		ops = append(ops, Op{Kind: "fromroots"})
	}
	return ops
}

type partPayload struct {
	Fam  PartialFamily `json:"family"`
	Hist []Op          `json:"history"`
}

func (f *PartialFamily) run(x *Exec, hist []Op) (*u.MapPollard, *partModel, bool) {
	mm := u.NewMapPollard(false)
	mm.TotalRows = f.TR
	md := &partModel{s: ref.State{Base: f.Base}, undoBud: f.UndoBud, frBud: f.FRBud}
	if f.Base > 0 {
		mm = u.NewMapPollardFromRoots(append([]Hash(nil), ref.APILayout(md.s).Roots...), f.Base, false)
	}
	m := &mm
	name := fmt.Sprintf("MapPollard(partial,TR=%d)", f.TR)
	for _, op := range hist {
		L := ref.APILayout(md.s)
		switch op.Kind {
		case "block":
			proof := L.Proof(op.Dels)
			dh := ref.Hashes(op.Dels)
			if f.ArgRev {
				dh, proof = revHP(dh, proof)
			}
			need := false
			for _, d := range op.Dels {
				if !md.must[d] {
					need = true
				}
			}
			if need {
				if err := x.VerifyAcc(name, m, dh, proof, true); err != nil {
					x.Report(f.Prop, "honest proof rejected by Verify(remember) on a partial forest", err.Error())
					return m, md, false
				}
			}
			remSet := map[int]bool{}
			for _, r := range op.Rem {
				remSet[r] = true
			}
			base := md.s.N()
			leaves := leavesFor(base, op.Adds, func(i int) bool { return remSet[i] })
			if err := x.Modify(name, m, leaves, dh, proof); err != nil {
				x.Report(f.Prop, "honest block rejected by a partial forest", err.Error())
				return m, md, false
			}
			md.stack = append(md.stack, partFrame{prev: md.s.Clone(), op: op, mustPrev: append([]bool(nil), md.must...)})
			nm := append([]bool(nil), md.must...)
			for _, d := range op.Dels {
				nm[d] = false
			}
			for i := 0; i < op.Adds; i++ {
				nm = append(nm, remSet[i] || md.fullNow)
			}
			md.must = nm
			md.s = md.s.Apply(op.Dels, op.Adds)
		case "verify", "ingest":
			proof := L.Proof(op.Set)
			if op.Enc == "junk" {
				proof.Proof = append(append([]Hash(nil), proof.Proof...), ref.FreshHash(9))
			}
			hs := ref.Hashes(op.Set)
			if f.ArgRev {
				hs, proof = revHP(hs, proof)
			}
			if op.Enc == "alloc" && m.TotalRows > L.R && m.TotalRows <= 63 {
				ts := make([]uint64, len(proof.Targets))
				for i, t := range proof.Targets {
					ts[i], _ = ref.Translate(t, L.R, m.TotalRows)
				}
				proof.Targets = ts
			}
			var err error
			if op.Kind == "verify" {
				err = x.VerifyAcc(name, m, hs, proof, true)
			} else {
				err = x.Ingest(name, m, hs, proof)
			}
			if err != nil {
				x.Report(f.Prop, op.Kind+" of an honest proof fails on a partial forest", fmt.Sprintf("set %v enc %q: %v", op.Set, op.Enc, err))
				return m, md, false
			}
			md.must = append([]bool(nil), md.must...)
			for _, s := range op.Set {
				md.must[s] = true
			}
		case "prune":
			ph := ref.Hashes(op.Set)
			if f.ArgRev {
				ph, _ = revHP(ph, u.Proof{})
			}
			if err := x.Prune(name, m, ph); err != nil {
				x.Report(f.Prop, "Prune of cached leaves fails", fmt.Sprintf("set %v: %v", op.Set, err))
				return m, md, false
			}
			md.must = append([]bool(nil), md.must...)
			for _, s := range op.Set {
				md.must[s] = false
			}
		case "undo":
			fr := md.stack[len(md.stack)-1]
			md.stack = md.stack[:len(md.stack)-1]
			LP := ref.APILayout(fr.prev)
			uh, up := ref.Hashes(fr.op.Dels), LP.Proof(fr.op.Dels)
			if f.ArgRev {
				uh, up = revHP(uh, up)
			}
			if err := x.Undo(name, m, uint64(fr.op.Adds), up, uh, append([]Hash(nil), LP.Roots...)); err != nil {
				x.Report(f.Prop, "Undo of the last block fails on a partial forest", err.Error())
				return m, md, false
			}
			nm := append([]bool(nil), md.must[:fr.prev.N()]...)
			for _, d := range fr.op.Dels {
				nm[d] = true // deletions re-enter the cache on undo
			}
			md.must = nm
			md.s = fr.prev
			md.undoBud--
			md.hasUndo = true
		case "fromroots":
			nm := u.NewMapPollardFromRoots(append([]Hash(nil), L.Roots...), md.s.Total(), f.FullFR)
			md.fullNow = f.FullFR
			m = &nm
			md.must = make([]bool, md.s.N())
			md.stack = nil // the new instance never saw the earlier blocks
			md.frBud--
		default:
			panic("partial: bad op " + op.Kind)
		}
		if f.Bad && !f.rejectedCalls(x, name, m, md) {
			return m, md, false
		}
	}
	return m, md, true
}

// rejectedCalls issues, on the current state, calls that the model treats as no-ops: Verify(remember=true) and
// VerifyPartialProof(remember=true) of claims with one wrong leaf hash or one wrong proof hash (rejected on the
// unchanged code), and Prune of hashes the instance does not cache (a never-added hash, a dead leaf, a live leaf
// that is not remembered). C09's oracle then runs on whatever state they leave behind: the model does not change,
// so a false hash stored by an accepted false claim is reported as "stored position holds a wrong hash" (the
// acceptance itself is C03's subject and only noted).
func (f *PartialFamily) rejectedCalls(x *Exec, name string, m *u.MapPollard, md *partModel) bool {
	L := ref.APILayout(md.s)
	live := md.s.Live()
	var sets [][]int
	if len(live) > 0 {
		sets = append(sets, []int{live[0]})
		if len(live) > 1 {
			sets = append(sets, []int{live[len(live)-1]}, live)
		}
	}
	for _, set := range sets {
		proof := L.Proof(set)
		hs := ref.Hashes(set)
		wrong := append([]Hash(nil), hs...)
		wrong[len(wrong)-1] = ref.FreshHash(77)
		if err := x.VerifyAcc(name, m, wrong, proof, true); err == nil {
			x.Note("a claim with a wrong leaf hash was accepted by Verify(remember)")
		}
		if err := safe(func() error { return m.VerifyPartialProof(proof.Targets, wrong, proof.Proof, true) }); err == nil {
			x.Note("a claim with a wrong leaf hash was accepted by VerifyPartialProof(remember)")
		} else if isPanic(err) {
			x.Report(f.Prop, "panic in VerifyPartialProof(remember) on a false claim", err.Error())
			return false
		}
		if len(proof.Proof) > 0 {
			bp := u.Proof{Targets: proof.Targets, Proof: append([]Hash(nil), proof.Proof...)}
			bp.Proof[0] = ref.FreshHash(78)
			if err := x.VerifyAcc(name, m, hs, bp, true); err == nil {
				x.Note("a proof with a wrong proof hash was accepted by Verify(remember)")
			}
		}
	}
	junk := []Hash{ref.FreshHash(79)}
	for i := 0; i < md.s.N(); i++ {
		if !md.s.Alive[i] {
			junk = append(junk, ref.LeafHash(i))
			break
		}
	}
	if !md.fullNow {
		for _, i := range live {
			if !md.must[i] {
				junk = append(junk, ref.LeafHash(i))
				break
			}
		}
	}
	if err := x.Prune(name, m, junk); err != nil {
		if isPanic(err) {
			x.Report(f.Prop, "panic in Prune of hashes that are not cached", err.Error())
			return false
		}
		x.Note("Prune of hashes that are not cached returns an error")
	}
	return true
}

// proofAnyway: the prover clauses are evaluated even when a storage clause already failed (set by families that
// report the prover clauses only).
func proofAnyway(x *Exec) bool { return x.ProofAnyway }

// checkPartial is the C09 oracle on one state.
func checkPartial(x *Exec, prop string, m *u.MapPollard, md *partModel, lastOp Op) int64 {
	var evals int64 = 1
	L := ref.APILayout(md.s)
	if m.TotalRows < L.R || m.TotalRows > 63 {
		x.Report(prop, "partial forest's allocated rows cannot hold its leaves", fmt.Sprintf("TotalRows %d rows needed %d", m.TotalRows, L.R))
		return evals
	}
	LT := L
	if m.TotalRows != L.R {
		LT = ref.LayoutOf(md.s, m.TotalRows)
	}
	if n, roots := m.GetNumLeaves(), m.GetRoots(); n != md.s.Total() || !eqH(roots, L.Roots) {
		// C01's clause; collected when the family runs under the C01 collector
		x.Report("C01", "roots or leaf count differ from reference on MapPollard(partial) after verify/ingest/prune/undo interleavings", fmt.Sprintf("TR=%d after %s: want N=%d %s got N=%d %s", m.TotalRows, lastOp.String(), md.s.Total(), shortHs(L.Roots), n, shortHs(roots)))
		return evals
	}
	obs := map[int]bool{}
	bad := false
	type ce struct {
		h Hash
		p uint64
	}
	var ces []ce
	m.CachedLeaves.ForEach(func(k Hash, v uint64) error { ces = append(ces, ce{k, v}); return nil })
	sort.Slice(ces, func(i, j int) bool { return ces[i].p < ces[j].p })
	for _, e := range ces {
		slot := -1
		for s := 0; s < md.s.N(); s++ {
			if ref.LeafHash(s) == e.h {
				slot = s
			}
		}
		switch {
		case slot < 0:
			x.Report(prop, "cached-leaf table holds a hash that is no leaf", fmt.Sprintf("%x@%d", e.h[:4], e.p))
			bad = true
		case !md.s.Alive[slot]:
			x.Report(prop, "cached-leaf table holds a deleted leaf", fmt.Sprintf("slot %d", slot))
			bad = true
		case LT.LeafPos[slot] != e.p:
			x.Report(prop, "cached-leaf table holds a wrong position", fmt.Sprintf("slot %d: want %d got %d", slot, LT.LeafPos[slot], e.p))
			bad = true
		default:
			obs[slot] = true
		}
	}
	for s, mu := range md.must {
		if mu && !obs[s] {
			x.Report(prop, "a leaf that was to be remembered is no longer cached", fmt.Sprintf("slot %d after %s", s, lastOp.String()))
			bad = true
		}
	}
	if lastOp.Kind == "prune" {
		for _, s := range lastOp.Set {
			if obs[s] {
				x.Report(prop, "a pruned leaf is still cached", fmt.Sprintf("slot %d", s))
				bad = true
			}
		}
	}
	for s := range obs {
		if !md.must[s] {
			x.Report(prop, "a leaf is cached although the forest was never asked to remember it (or it was pruned)", fmt.Sprintf("slot %d after %s", s, lastOp.String()))
			bad = true
		}
	}
	allowed := map[uint64]bool{}
	needed := map[uint64]bool{}
	for _, rp := range LT.RootPos {
		allowed[rp], needed[rp] = true, true
	}
	for s := range obs {
		p := LT.LeafPos[s]
		allowed[p], needed[p] = true, true
		for {
			pp, ok := LT.Parent[p]
			if !ok {
				break
			}
			allowed[p^1], needed[p^1] = true, true
			allowed[pp] = true
			p = pp
		}
	}
	type ne struct {
		p uint64
		l u.Leaf
	}
	var nes []ne
	m.Nodes.ForEach(func(k uint64, v u.Leaf) error { nes = append(nes, ne{k, v}); return nil })
	sort.Slice(nes, func(i, j int) bool { return nes[i].p < nes[j].p })
	stored := map[uint64]bool{}
	for _, e := range nes {
		stored[e.p] = true
		want, ok := LT.At[e.p]
		switch {
		case !ok:
			x.Report(prop, "partial forest stores a position where no node exists", fmt.Sprintf("pos %d (%x) after %s", e.p, e.l.Hash[:4], lastOp.String()))
			bad = true
		case want != e.l.Hash:
			x.Report(prop, "partial forest stores a false hash", fmt.Sprintf("pos %d: want %x got %x after %s", e.p, want[:4], e.l.Hash[:4], lastOp.String()))
			bad = true
		case !allowed[e.p] && !md.fullNow:
			x.Report(prop, "partial forest stores a position that no remembered leaf needs", fmt.Sprintf("pos %d after %s (cached %v)", e.p, lastOp.String(), sortedKeys(obs)))
		}
	}
	var np []uint64
	for p := range needed {
		np = append(np, p)
	}
	sort.Slice(np, func(i, j int) bool { return np[i] < np[j] })
	for _, p := range np {
		if !stored[p] {
			x.Report(prop, "partial forest misses a position needed to prove a remembered leaf", fmt.Sprintf("pos %d after %s (cached %v)", p, lastOp.String(), sortedKeys(obs)))
			bad = true
		}
	}
	if bad && !proofAnyway(x) {
		return evals
	}
	os := sortedKeys(obs)
	name := fmt.Sprintf("MapPollard(partial,TR=%d)", m.TotalRows)
	psets := subsets
	if len(os) > 600 {
		psets = func(items []int, _ bool) [][]int {
			return (&HistFamily{Or: HistOracle{ProofSets: "ends"}}).proofSets(items)
		}
	} else if len(os) > 7 {
		// large caches (medium family): singletons, neighbouring pairs, first+last, all
		psets = func(items []int, _ bool) [][]int {
			return (&HistFamily{Or: HistOracle{ProofSets: "tall"}}).proofSets(items)
		}
	}
	for _, set := range psets(os, false) {
		evals++
		want := L.Proof(set)
		got, err := x.Prove(name, m, ref.Hashes(set))
		if err != nil {
			x.Report(prop, "a remembered leaf set cannot be proven", fmt.Sprintf("slots %v: %v", set, err))
		} else if !eqProof(got, want) {
			x.Report(prop, "proof of a remembered leaf set is not the canonical one", fmt.Sprintf("slots %v: want %s got %s", set, proofStr(want), proofStr(got)))
		}
	}
	return evals
}

func sortedKeys(m map[int]bool) []int {
	var out []int
	for k := range m {
		out = append(out, k)
	}
	sort.Ints(out)
	return out
}

func (f *PartialFamily) Step(n *Node, op Op) StepResult {
	hist := append(append([]Op(nil), n.Hist...), op)
	xp := f.Prop
	if f.Collect != "" {
		xp = f.Collect
	}
	x := NewExec(xp, func() Case { return mkCase("partial", partPayload{Fam: *f, Hist: hist}) })
	x.ProofAnyway = f.ProofOnly
	m, md, ok := f.run(x, hist)
	res := StepResult{}
	if ok {
		prop := f.Prop
		if f.UndoAs != "" && md.hasUndo {
			prop = f.UndoAs
		}
		res.Evals = checkPartial(x, prop, m, md, op)
	}
	x.CheckHeld()
	res.Viol = x.Viol
	if f.ProofOnly {
		res.Viol = nil
		for _, v := range x.Viol {
			if strings.HasPrefix(v.Sig, "a remembered leaf set cannot be proven") || strings.HasPrefix(v.Sig, "proof of a remembered leaf set is not the canonical one") {
				res.Viol = append(res.Viol, v)
			}
		}
		if len(res.Viol) == 0 && len(x.Viol) > 0 {
			res.Terminal = true // another property's clause failed: the path ends, the owner reports it
			return res
		}
	}
	res.Notes = x.Notes
	res.Nontriv = md.s.NumLive() < md.s.N() || md.hasUndo
	if !ok || len(x.Viol) > 0 {
		res.Terminal = true
		return res
	}
	var sb strings.Builder
	sb.WriteString(md.AbstractKey())
	fmt.Fprintf(&sb, "|u%d f%d|", md.undoBud, md.frBud)
	sb.WriteString(DumpMap(m))
	for i := len(md.stack) - 1; i >= 0 && len(md.stack)-i <= md.undoBud; i-- {
		fr := md.stack[i]
		fmt.Fprintf(&sb, "F:%s:%s:%s;", fr.prev.Key(), boolKey(fr.mustPrev), fr.op.String())
	}
	res.Key = sb.String()
	// the stored model only serves Ops() (which asks whether there is something to undo): every
	// transition replays the history from scratch, so drop all frames but the newest to save memory
	if len(md.stack) > 1 {
		md.stack = md.stack[len(md.stack)-1:]
	}
	res.Next = &Node{Hist: hist, Model: md}
	return res
}

// partialMedium drives a partial forest through three-step histories on 11..17 leaves with
// irregular remember and deletion patterns (the BFS stops at 4-6 leaves):
// [add N remembering all | even slots | {0, N-1} | none][delete S, add k remembering all]
// [delete / verify-remember / prune one leaf], S = every subset of size <= 2 plus every subset of the
// window of slots 2..9; the full C09 oracle after every step.
func partialMedium(c *Ctx, collect ...string) {
	defer c.Phase("structured partial-forest families")()
	Ns := []int{12}
	trs := []uint8{0, 63}
	if c.Thorough() {
		Ns = []int{11, 12, 13, 16, 17}
		trs = []uint8{0, 3, 4, 63}
	}
	c.Cov.Bound["medium.N"] = fmt.Sprint(Ns)
	type job struct {
		tr   uint8
		hist []Op
	}
	var jobs []job
	for _, N := range Ns {
		seen := map[string]bool{}
		var sets [][]int
		add := func(x []int) {
			if len(x) > 0 && !seen[fmt.Sprint(x)] {
				seen[fmt.Sprint(x)] = true
				sets = append(sets, x)
			}
		}
		for a := 0; a < N; a++ {
			add([]int{a})
			for b := a + 1; b < N; b++ {
				add([]int{a, b})
			}
		}
		for mask := 1; mask < 256; mask++ {
			var x []int
			for j := 0; j < 8; j++ {
				if mask&(1<<uint(j)) != 0 {
					x = append(x, 2+j)
				}
			}
			add(x)
		}
		all := make([]int, N)
		var evens []int
		for i := range all {
			all[i] = i
			if i%2 == 0 {
				evens = append(evens, i)
			}
		}
		rchoices := [][]int{evens, {0, N - 1}}
		if c.Thorough() {
			rchoices = [][]int{all, evens, {0, N - 1}, {}}
		}
		for _, R := range rchoices {
			isRem := map[int]bool{}
			for _, r := range R {
				isRem[r] = true
			}
			for _, S := range sets {
				dead := map[int]bool{}
				for _, d := range S {
					dead[d] = true
				}
				for _, k := range []int{0, 1, 3} {
					kr := make([]int, k)
					for i := range kr {
						kr[i] = i
					}
					base := []Op{{Kind: "block", Adds: N, Rem: R}, {Kind: "block", Dels: S, Adds: k, Rem: kr}}
					for _, tr := range trs {
						jobs = append(jobs, job{tr, base})
						for x := 0; x < N+k; x += 2 {
							if dead[x] {
								continue
							}
							third := Op{Kind: "block", Dels: []int{x}, Rem: []int{}}
							if x%4 == 2 {
								third = Op{Kind: "verify", Set: []int{x}}
							} else if (isRem[x] || x >= N) && x%3 == 0 {
								third = Op{Kind: "prune", Set: []int{x}}
							}
							jobs = append(jobs, job{tr, append(append([]Op(nil), base...), third)})
						}
					}
				}
			}
		}
	}
	// aligned-union family with undo: [add N remembering all | even slots][delete a union of up to
	// two (thorough: three) disjoint aligned blocks, add k][undo]
	auNs, parts := []int{11, 12}, 2
	if c.Thorough() {
		auNs, parts = []int{11, 12, 13, 16}, 3
	}
	c.Cov.Bound["aligned_unions.N"] = fmt.Sprint(auNs)
	for _, N := range auNs {
		var all, evens []int
		for i := 0; i < N; i++ {
			all = append(all, i)
			if i%2 == 0 {
				evens = append(evens, i)
			}
		}
		for _, S := range alignedUnions(N, parts) {
			for _, R := range [][]int{all, evens} {
				for _, k := range []int{0, 1, 2, nextPow2(N) - N + 1} {
					kr := make([]int, k)
					for i := range kr {
						kr[i] = i
					}
					for _, tr := range trs {
						jobs = append(jobs, job{tr, []Op{{Kind: "block", Adds: N, Rem: R}, {Kind: "block", Dels: S, Adds: k, Rem: kr}, {Kind: "undo"}}})
					}
				}
			}
		}
	}
	// gap family (see gapHists): 21 leaves, an interval deleted, then blocks deleting the neighbours
	// of the growing gap, then undone block by block down to the first
	{
		gapN, gapW, gapDepth := 21, 2, 2
		gtrs := []uint8{0, 63}
		if c.Thorough() {
			gapW, gapDepth = 4, 3
			gtrs = []uint8{0, 4, 63}
		}
		before := len(jobs)
		var all, evens []int
		for i := 0; i < gapN; i++ {
			all = append(all, i)
			if i%2 == 0 {
				evens = append(evens, i)
			}
		}
		for _, R := range [][]int{all, evens, {3, gapN - 2}} {
			for _, h := range gapHists(gapN, gapW, []int{0, 2}, gapDepth, R, true) {
				for u, nb := 1, len(h); u < nb; u++ {
					h = append(h, Op{Kind: "undo"})
				}
				for _, tr := range gtrs {
					jobs = append(jobs, job{tr, h})
				}
			}
		}
		c.Cov.Bound["gap_family"] = fmt.Sprintf("N=%d interval width<=%d, %d neighbour blocks, undone completely; %d histories", gapN, gapW, gapDepth-1, len(jobs)-before)
		// two-deletion-block family: every [add N][delete S][delete T, add k][undo][undo]
		tdN := 7
		if c.Thorough() {
			tdN = 8
		}
		before = len(jobs)
		var tall, tev []int
		for i := 0; i < tdN; i++ {
			tall = append(tall, i)
			if i%2 == 0 {
				tev = append(tev, i)
			}
		}
		for _, R := range [][]int{tall, tev} {
			for _, h := range twoDelHists(tdN, []int{0, 1}, R, true) {
				h = append(h, Op{Kind: "undo"}, Op{Kind: "undo"})
				for _, tr := range gtrs {
					jobs = append(jobs, job{tr, h})
				}
			}
		}
		c.Cov.Bound["two_deletion_blocks"] = fmt.Sprintf("N=%d, every disjoint non-empty S,T, remember all / even, undone twice; %d histories", tdN, len(jobs)-before)
	}
	// large caches: hundreds (thorough: thousands) of remembered leaves; 257 (thorough: 2600) leaves in one
	// Verify(remember), Prune or block - counters and indexes of 8 or 16 bits wrap here
	{
		before := len(jobs)
		type big struct{ N, many int }
		bigs := []big{{600, 257}}
		if c.Thorough() {
			bigs = append(bigs, big{6000, 2600}) // 132 000 / 65 537 does not finish within the budget (replay per step, oracle per state)
		}
		seq := func(a, b, step int) []int {
			var x []int
			for i := a; i < b; i += step {
				x = append(x, i)
			}
			return x
		}
		for _, bg := range bigs {
			N, many := bg.N, bg.many
			evens := seq(0, N, 2)
			h1 := []Op{{Kind: "block", Adds: N, Rem: evens},
				{Kind: "verify", Set: seq(1, 2*many, 2)},                               // `many` uncached leaves in one call
				{Kind: "prune", Set: seq(0, 2*many, 2)},                                // `many` cached leaves in one call
				{Kind: "block", Dels: []int{1, 3, 2*many - 1}, Adds: 2, Rem: []int{0}}, // some of what is left
				{Kind: "undo"}}
			h2 := []Op{{Kind: "block", Adds: N, Rem: seq(0, N, 1)},
				{Kind: "block", Dels: seq(0, many, 1), Adds: 1, Rem: []int{0}}, // `many` deletions in one block
				{Kind: "undo"}}
			for _, tr := range []uint8{0, 63} {
				jobs = append(jobs, job{tr, h1}, job{tr, h2})
			}
		}
		// one block of 65535 / 65536 / 65537 additions (16-bit addition counts wrap), then a deletion
		for _, k := range []int{1<<16 - 1, 1 << 16, 1<<16 + 1} {
			h := []Op{{Kind: "block", Adds: k, Rem: []int{0, 1, k - 1}}, {Kind: "block", Dels: []int{1}, Adds: 1, Rem: []int{0}}}
			for _, tr := range []uint8{0, 4, 63} {
				jobs = append(jobs, job{tr, h})
			}
		}
		c.Cov.Bound["large_caches"] = fmt.Sprintf("%v (leaves, leaves per call); %d histories", bigs, len(jobs)-before)
	}
	var steps, evals int64
	ok := parallelFor(c, len(jobs), func(i int) {
		fam := &PartialFamily{Nmax: 1 << 20, TR: jobs[i].tr, UndoBud: 1, Prop: "C09"}
		if len(collect) > 0 {
			fam.Collect = collect[0]
		}
		n, _ := fam.Root()
		// only the last two steps are new with respect to the shared prefix; Step re-checks each
		for _, op := range jobs[i].hist {
			r := safeStep(c, fam, n, op)
			atomic.AddInt64(&steps, 1)
			atomic.AddInt64(&evals, r.Evals)
			c.Col.Add(r.Viol...)
			for _, nt := range r.Notes {
				c.Col.Note(nt)
			}
			if r.Next == nil {
				break
			}
			n = r.Next
		}
		if i%9973 == 0 {
			c.Cov.Sample(fmt.Sprintf("medium TR=%d: %s", jobs[i].tr, histStr(jobs[i].hist)))
		}
	})
	if !ok {
		c.Cov.NotExhaustive("deadline reached in the medium partial-forest family")
	}
	c.Cov.AddStates(int64(len(jobs)))
	c.Cov.AddTransitions(steps)
	c.Cov.AddEvals(evals)
	c.Cov.AddNontrivial(int64(len(jobs)))
	c.Cov.SetExtra("medium_family_histories", len(jobs))
}

func init() {
	Engines["partial"] = func(prop string, payload json.RawMessage) ([]Violation, error) {
		var p partPayload
		if err := json.Unmarshal(payload, &p); err != nil {
			return nil, err
		}
		f := p.Fam
		x := NewExec(prop, func() Case { return Case{Engine: "partial", Payload: payload} })
		x.ProofAnyway = f.ProofOnly
		m, md, ok := f.run(x, p.Hist)
		if ok && len(p.Hist) > 0 {
			checkPartial(x, f.Prop, m, md, p.Hist[len(p.Hist)-1])
		}
		x.CheckHeld()
		return x.Viol, nil
	}

	Checks["C09"] = func(c *Ctx) {
		c.Cov.Rule = "explicit-state BFS over the life of one non-full MapPollard per TotalRows setting: transitions = block (every deletion subset x addition count x Remember subset; uncached deletions first verified with remember), Verify(remember=true) / Ingest of every live leaf set with the honest proof (also with a trailing unused proof hash), Prune of every cached subset, Undo (budgeted), replacement by NewMapPollardFromRoots at the current state (budget 1); on every reached state: every stored position holds the reference hash in allocated-height coordinates, the cached-leaf table is exactly the model's remembered set at true positions, stored positions are within roots + cached leaves + path siblings + path ancestors and contain roots + cached leaves + path siblings, and every subset of the cached leaves is proven canonically; non-trivial = distinct concrete state with a dead leaf or after undo"
		trs := pick(c, []uint8{0, 2, 63}, []uint8{0, 1, 2, 3, 62, 63})
		c.Cov.Bound["TotalRows"] = fmt.Sprint(trs)
		nA := pick(c, 4, 5)
		c.Cov.Bound["A"] = fmt.Sprintf("Nmax=%d undo budget 1, fromroots budget 1, junk-proof verify", nA)
		for _, tr := range trs {
			BFS(c, &PartialFamily{Nmax: nA, TR: tr, UndoBud: 1, FRBud: 1, Junk: true, Prop: "C09"}, 0)
		}
		// the same with Verify(remember) targets given in allocated-height coordinates
		c.Cov.Bound["A_alloc"] = fmt.Sprintf("Nmax=%d, TotalRows 3 and 63, Verify(remember) with allocated-row targets, undo budget 1", nA)
		for _, tr := range []uint8{3, 63} {
			if !c.Expired() {
				BFS(c, &PartialFamily{Nmax: nA, TR: tr, UndoBud: 1, NoIngest: true, Alloc: true, Prop: "C09"}, 0)
			}
		}
		// the same with every target / hash list in descending order
		c.Cov.Bound["A_descending"] = fmt.Sprintf("Nmax=%d, TotalRows 0 and 63, descending targets and hashes, undo budget 1", nA)
		for _, tr := range []uint8{0, 63} {
			if !c.Expired() {
				BFS(c, &PartialFamily{Nmax: nA, TR: tr, UndoBud: 1, ArgRev: true, Prop: "C09"}, 0)
			}
		}
		nO := pick(c, 3, 4)
		bases := offsetBases(c.Thorough())
		c.Cov.Bound["offset_start"] = fmt.Sprintf("NewMapPollardFromRoots at Base in %v, Nmax=%d added leaves, undo budget 1", bases, nO)
		for _, b := range bases {
			if c.Expired() {
				break
			}
			BFS(c, &PartialFamily{Nmax: nO, TR: 63, UndoBud: 1, Junk: true, Prop: "C09", Base: b}, 0)
		}
		// rejected calls and no-op prunes after every operation
		c.Cov.Bound["A_rejected_calls"] = fmt.Sprintf("Nmax=%d, TotalRows 0, 2 and 63, after every operation: rejected Verify(remember) / VerifyPartialProof(remember) (wrong leaf hash, wrong proof hash) and Prune of hashes that are not cached; undo budget 1, fromroots budget 1", nA)
		for _, tr := range []uint8{0, 2, 63} {
			if !c.Expired() {
				BFS(c, &PartialFamily{Nmax: nA, TR: tr, UndoBud: 1, FRBud: 1, NoIngest: true, Bad: true, Prop: "C09"}, 0)
			}
		}
		partialMedium(c)
		nB := pick(c, 5, 6)
		c.Cov.Bound["B"] = fmt.Sprintf("Nmax=%d forward only (no undo), sets of size<=2", nB)
		for _, tr := range trs {
			if c.Expired() {
				break
			}
			BFS(c, &PartialFamily{Nmax: nB, TR: tr, Prop: "C09", SetLimit: 2, NoIngest: true}, 0)
		}
	}
}

func (f *PartialFamily) CaseOf(hist []Op) (Case, string) {
	return mkCase("partial", partPayload{Fam: *f, Hist: hist}), histStr(hist)
}

// revHP reverses the hashes and, when it has as many targets, the proof's target list with them.
func revHP(hs []Hash, proof u.Proof) ([]Hash, u.Proof) {
	n := len(hs)
	rh := make([]Hash, n)
	for i := range hs {
		rh[n-1-i] = hs[i]
	}
	if len(proof.Targets) != n {
		return rh, proof
	}
	rt := make([]uint64, n)
	for i := range proof.Targets {
		rt[n-1-i] = proof.Targets[i]
	}
	return rh, u.Proof{Targets: rt, Proof: proof.Proof}
}
