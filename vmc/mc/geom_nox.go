//go:build !verif

package mc

const haveTranslate = false

func evalTranslate(R, r uint8, off, p uint64) string { return "" }
