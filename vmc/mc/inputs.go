package mc

import (
	"encoding/hex"
	"encoding/json"
	"fmt"
	"os"
	"sort"
	"sync"
	"sync/atomic"
	"time"

	u "github.com/utreexo/utreexo"
	"vmc/ref"
)

// E2 `inputs`: exhaustive enumeration of untrusted (hashes, targets, proof) triples against every
// verification entry point, on every accumulator state of a small forest (C03 soundness, C04
// totality/atomic reject) and complete edit neighbourhoods of honest proofs on larger forests.

// inputCase is one replayable evaluation.
type inputCase struct {
	N       int      `json:"n"`                // leaves ever added
	Alive   string   `json:"alive"`            // "1011": which are live
	SynthN  uint64   `json:"synthN,omitempty"` // synthetic stump: NumLeaves (roots are fresh hashes)
	Base    uint64   `json:"base,omitempty"`   // offset-start state: Base opaque leaves before the N added ones
	Ver     string   `json:"verifier"`
	Targets []uint64 `json:"targets"`
	Hashes  []string `json:"hashes"`
	Proof   []string `json:"proof"`
	// Task is set for a call that never returned although the same call returns on a fresh
	// instance: the hang depends on the earlier calls of the (deterministic) enumeration task,
	// which the replay re-runs.
	Task  *inTask `json:"task,omitempty"`
	Index int64   `json:"index,omitempty"`
}

// inTask identifies one enumeration task (one state x one verifier) of the input engine.
type inTask struct {
	Kind     string `json:"kind"` // triples | synth | edits
	T        int    `json:"T,omitempty"`
	P        int    `json:"P,omitempty"`
	Mismatch bool   `json:"mismatch,omitempty"`
	T0       int    `json:"t0,omitempty"`
	K        int    `json:"K,omitempty"`
	Double   bool   `json:"double,omitempty"`
}

func hexHs(hs []Hash) []string {
	out := make([]string, len(hs))
	for i, h := range hs {
		out[i] = hex.EncodeToString(h[:])
	}
	return out
}

func unhexHs(ss []string) []Hash {
	out := make([]Hash, len(ss))
	for i, s := range ss {
		b, _ := hex.DecodeString(s)
		copy(out[i][:], b)
	}
	return out
}

// verSpec describes one verification entry point on one kind of instance.
type verSpec struct {
	ID       string // stable id used in cases
	Class    string // low-cardinality class for signatures
	Kind     string // verify | update | pollard | map | partialproof
	Adds     int    // Stump.Update: number of additions
	Full     bool
	TR       uint8
	Cache    string // partial maps: all | none
	Remember bool
}

func stdVerifiers(thorough bool) []verSpec {
	vs := []verSpec{
		{ID: "Verify", Class: "Verify", Kind: "verify"},
		{ID: "Pollard.Verify", Class: "Pollard.Verify", Kind: "pollard"},
		{ID: "Stump.Update+0", Class: "Stump.Update", Kind: "update", Adds: 0},
		{ID: "Stump.Update+2", Class: "Stump.Update", Kind: "update", Adds: 2},
	}
	trs := []uint8{0, 3, 63}
	if thorough {
		trs = []uint8{0, 2, 3, 4, 62, 63}
	}
	for _, tr := range trs {
		vs = append(vs, verSpec{ID: fmt.Sprintf("MapPollard(full,TR=%d).Verify", tr), Class: "MapPollard(full).Verify", Kind: "map", Full: true, TR: tr})
	}
	vs = append(vs, verSpec{ID: "MapPollard(full,TR=3).Verify(remember=true)", Class: "MapPollard(full).Verify", Kind: "map", Full: true, TR: 3, Remember: true})
	for _, tr := range trs {
		for _, rem := range []bool{false, true} {
			vs = append(vs, verSpec{ID: fmt.Sprintf("MapPollard(partial:all,TR=%d).Verify(remember=%v)", tr, rem), Class: "MapPollard(partial).Verify", Kind: "map", TR: tr, Cache: "all", Remember: rem})
		}
	}
	vs = append(vs, verSpec{ID: "MapPollard(partial:none,TR=63).Verify(remember=true)", Class: "MapPollard(partial).Verify", Kind: "map", TR: 63, Cache: "none", Remember: true})
	for _, cache := range []string{"all", "none"} {
		for _, rem := range []bool{false, true} {
			tr := uint8(63)
			if cache == "all" {
				tr = 0
			}
			vs = append(vs, verSpec{ID: fmt.Sprintf("MapPollard(partial:%s,TR=%d).VerifyPartialProof(remember=%v)", cache, tr, rem), Class: "MapPollard.VerifyPartialProof", Kind: "partialproof", TR: tr, Cache: cache, Remember: rem})
		}
	}
	return vs
}

// vinst is a live instance of a verifier on one state.
type vinst struct {
	spec  verSpec
	s     ref.State
	L     *ref.Layout // API coordinates
	LT    *ref.Layout // the map forest's allocated coordinates (nil when identical to L)
	synth *u.Stump    // synthetic stump (C04 giant states)
	stump u.Stump
	pol   *u.Pollard
	m     *u.MapPollard
	dirty bool
}

func buildVinst(spec verSpec, s ref.State, synth *u.Stump) (*vinst, error) {
	v := &vinst{spec: spec, s: s, synth: synth}
	if synth != nil {
		v.stump = u.Stump{Roots: append([]Hash(nil), synth.Roots...), NumLeaves: synth.NumLeaves}
		switch spec.Kind {
		case "verify", "update":
			return v, nil
		case "map", "partialproof":
			if spec.Full || spec.Cache != "none" {
				return nil, nil // cannot be built at synthetic sizes
			}
			m := u.NewMapPollardFromRoots(v.stump.Roots, v.stump.NumLeaves, false)
			v.m = &m
			return v, nil
		}
		return nil, nil
	}
	v.L = ref.APILayout(s)
	v.stump = u.Stump{Roots: append([]Hash(nil), v.L.Roots...), NumLeaves: s.Total()}
	if s.Base > 0 {
		// offset-start state: only the roots-only verifier and a partial map forest started from
		// bare roots (the added leaves are added and remembered, the dead ones deleted) can exist
		switch spec.Kind {
		case "verify", "update":
			return v, nil
		case "map", "partialproof":
			if spec.Full {
				return nil, nil
			}
			fam := &PartialFamily{Nmax: 64, TR: 63, Base: s.Base, Prop: "substrate"}
			all := make([]int, s.N())
			var dead []int
			for i := range all {
				all[i] = i
				if !s.Alive[i] {
					dead = append(dead, i)
				}
			}
			var hist []Op
			if s.N() > 0 {
				hist = append(hist, Op{Kind: "block", Adds: s.N(), Rem: all})
			}
			if len(dead) > 0 {
				hist = append(hist, Op{Kind: "block", Dels: dead, Rem: []int{}})
			}
			x := NewExec("substrate", func() Case { return Case{} })
			m, _, ok := fam.run(x, hist)
			if !ok {
				return nil, fmt.Errorf("offset-start partial forest could not be built")
			}
			v.m = m
			v.setLT()
			return v, nil
		}
		return nil, nil
	}
	N := s.N()
	all := ref.State{Alive: make([]bool, N)}
	var dead []int
	for i := 0; i < N; i++ {
		all.Alive[i] = true
		if !s.Alive[i] {
			dead = append(dead, i)
		}
	}
	L0 := ref.APILayout(all)
	var acc u.Utreexo
	switch spec.Kind {
	case "verify", "update":
		return v, nil
	case "pollard":
		p := u.NewAccumulator()
		v.pol = &p
		acc = v.pol
	case "map", "partialproof":
		if !spec.Full && spec.Cache == "none" {
			m := u.NewMapPollardFromRoots(v.L.Roots, s.Total(), false)
			v.m = &m
			v.setLT()
			return v, nil
		}
		m := u.NewMapPollard(spec.Full)
		m.TotalRows = spec.TR
		v.m = &m
		acc = v.m
	}
	if N > 0 {
		if err := safe(func() error { return acc.Modify(leavesFor(0, N, func(int) bool { return true }), nil, u.Proof{}) }); err != nil {
			return nil, err
		}
		if len(dead) > 0 {
			if err := safe(func() error { return acc.Modify(nil, ref.Hashes(dead), L0.Proof(dead)) }); err != nil {
				return nil, err
			}
		}
	}
	v.setLT()
	return v, nil
}

func (v *vinst) setLT() {
	if v.m != nil {
		if tr := v.m.TotalRows; tr > v.L.R && tr <= 63 {
			v.LT = ref.LayoutOf(v.s, tr)
		}
	}
}

// call runs the verifier on one input. It returns whether the input was accepted and the error
// (a recovered panic is an error with isPanic true). atomicViol is non-empty when Stump.Update
// rejected but changed the stump.
func (v *vinst) call(hs []Hash, p u.Proof) (accepted bool, err error, atomicViol string) {
	switch v.spec.Kind {
	case "verify":
		err = safe(func() error { _, e := u.Verify(v.stump, hs, p); return e })
	case "update":
		st := u.Stump{Roots: append([]Hash(nil), v.stump.Roots...), NumLeaves: v.stump.NumLeaves}
		adds := make([]Hash, v.spec.Adds)
		for i := range adds {
			adds[i] = ref.FreshHash(100 + i)
		}
		err = safe(func() error { _, e := st.Update(hs, adds, p); return e })
		if err != nil && !isPanic(err) {
			if st.NumLeaves != v.stump.NumLeaves || !eqH(st.Roots, v.stump.Roots) {
				atomicViol = fmt.Sprintf("before N=%d %s after N=%d %s", v.stump.NumLeaves, shortHs(v.stump.Roots), st.NumLeaves, shortHs(st.Roots))
			}
		}
	case "pollard":
		err = safe(func() error { return v.pol.Verify(hs, p, false) })
	case "map":
		err = safe(func() error { return v.m.Verify(hs, p, v.spec.Remember) })
		if v.spec.Remember && (err == nil || isPanic(err)) {
			v.dirty = true
		}
	case "partialproof":
		err = safe(func() error { return v.m.VerifyPartialProof(p.Targets, hs, p.Proof, v.spec.Remember) })
		if v.spec.Remember && (err == nil || isPanic(err)) {
			v.dirty = true
		}
	}
	return err == nil, err, atomicViol
}

// claimTrue reports whether hash h really sits at position t of the committed forest (in the API
// coordinates, or for a map forest also in the coordinates of its allocated height).
func (v *vinst) claimTrue(t uint64, h Hash) bool {
	if at, ok := v.L.At[t]; ok && at == h {
		return true
	}
	if v.LT != nil {
		if at, ok := v.LT.At[t]; ok && at == h {
			return true
		}
	}
	return false
}

// inputsEval evaluates one input on one instance and reports C03/C04 violations through rep.
// It returns whether the input was accepted.
func inputsEval(v *vinst, hs []Hash, p u.Proof, rep func(prop, sig, detail string)) bool {
	acc, err, av := v.call(hs, p)
	if isPanic(err) {
		rep("C04", "panic in "+v.spec.Class, err.Error())
		return false
	}
	if av != "" {
		rep("C04", "Stump.Update rejected its input but changed the stump", av)
	}
	if !acc {
		return false
	}
	if v.synth != nil {
		// synthetic stumps commit to no known forest: any accepted non-empty claim whose hash is
		// not a root sitting at its own root position is unsound, but only totality is checked
		// here (C04); soundness on real forests is C03's space.
		return true
	}
	if len(hs) != len(p.Targets) {
		if len(p.Targets) > 0 || len(hs) > 0 {
			rep("C03", "accepted although the numbers of hashes and targets differ: "+v.spec.Class, fmt.Sprintf("%d hashes %d targets", len(hs), len(p.Targets)))
		}
		return true
	}
	for _, h := range hs {
		if h == ref.Zero {
			return true // the property speaks about non-zero hashes only
		}
	}
	for i, t := range p.Targets {
		if !v.claimTrue(t, hs[i]) {
			what := "a position where no node exists"
			if at, ok := v.L.At[t]; ok {
				what = fmt.Sprintf("a position that holds %x", at[:4])
			}
			zp := ""
			for _, ph := range p.Proof {
				if ph == ref.Zero {
					zp = " [proof contains a zero hash]"
				}
			}
			dup := ""
			seen := map[uint64]bool{}
			for _, tt := range p.Targets {
				if seen[tt] {
					dup = " [repeated target]"
				}
				seen[tt] = true
			}
			rep("C03", "false claim accepted by "+v.spec.Class+zp+dup, fmt.Sprintf("state %s: claim hash %x at position %d, which is %s (targets %v hashes %s proof %s)", v.s.Key(), hs[i][:4], t, what, p.Targets, shortHs(hs), shortHs(p.Proof)))
			break
		}
	}
	return true
}

// ---------- worker pool with a non-termination watchdog ----------

// rawCase is what a worker publishes before each call: references only (cheap). It is turned
// into an inputCase when a hang has to be reported; the worker is then stuck inside the call, so
// the referenced slices are not changing.
type rawCase struct {
	n       int
	base    uint64
	alive   string
	synthN  uint64
	ver     string
	targets []uint64
	hashes  []Hash
	proof   []Hash
}

func (r *rawCase) toCase() inputCase {
	return inputCase{N: r.n, Base: r.base, Alive: r.alive, SynthN: r.synthN, Ver: r.ver, Targets: append([]uint64(nil), r.targets...), Hashes: hexHs(r.hashes), Proof: hexHs(r.proof)}
}

type inWorker struct {
	raw     rawCase
	tick    atomic.Int64
	busy    atomic.Bool
	stopped bool
	task    *inTask // the task being run (for reporting sequence-dependent hangs)
	tick0   int64   // tick at the start of the task
}

const hangLimit = 20 * time.Second

// runInputTasks runs tasks on c.Workers goroutines. Each task publishes the case it is about
// to evaluate through w.publish. A case on which a worker makes no progress for hangLimit is
// re-executed twice in fresh goroutines with the same limit; if it never returns it is reported
// as a C04 violation and the run ends at once (the stuck goroutines cannot be stopped).
func runInputTasks(c *Ctx, n int, task func(i int, w *inWorker)) {
	workers := make([]*inWorker, c.Workers)
	for i := range workers {
		workers[i] = &inWorker{}
	}
	var next int64 = -1
	var wg sync.WaitGroup
	done := make(chan struct{})
	var expired atomic.Bool
	for _, w := range workers {
		wg.Add(1)
		go func(w *inWorker) {
			defer wg.Done()
			for {
				i := int(atomic.AddInt64(&next, 1))
				if i >= n {
					return
				}
				if c.Expired() {
					expired.Store(true)
					return
				}
				w.busy.Store(true)
				w.stopped = false
				w.task = nil
				w.tick0 = w.tick.Load()
				task(i, w)
				w.busy.Store(false)
			}
		}(w)
	}
	go func() { wg.Wait(); close(done) }()
	last := make([]int64, len(workers))
	since := make([]time.Time, len(workers))
	first := make([]time.Time, len(workers)) // since when the tick has not moved at all
	for i := range since {
		since[i] = time.Now()
		first[i] = time.Now()
		last[i] = -1
	}
	tk := time.NewTicker(2 * time.Second)
	defer tk.Stop()
	for {
		select {
		case <-done:
			if expired.Load() {
				c.Cov.NotExhaustive("deadline reached during input enumeration")
			}
			return
		case <-tk.C:
			for i, w := range workers {
				t := w.tick.Load()
				if t != last[i] || !w.busy.Load() {
					last[i] = t
					since[i] = time.Now()
					first[i] = time.Now()
					continue
				}
				if time.Since(since[i]) < hangLimit {
					continue
				}
				csv := w.raw.toCase()
				cs := &csv
				hung := 0
				for k := 0; k < 2; k++ {
					if _, timedOut := evalInputCaseTimed(*cs, hangLimit); timedOut {
						hung++
					}
				}
				if hung == 2 {
					c.Col.Add(Violation{Prop: "C04", Sig: "verification entry point does not return: " + verClass(cs.Ver), Detail: fmt.Sprintf("no return within %v (three executions)", hangLimit), Case: mkCase("inputs", *cs)})
					c.Cov.NotExhaustive("enumeration stopped at the first confirmed non-terminating call")
					hangExit(c)
				}
				// The same call returns on a fresh instance. If the worker stays stuck for three
				// times the limit while the process is demonstrably alive (the isolated
				// re-executions just ran to completion), the call hangs because of the earlier
				// calls made on the same instance (e.g. a lock leaked on a rejection path).
				if time.Since(first[i]) >= 3*hangLimit && w.task != nil {
					cs.Task = w.task
					cs.Index = t - w.tick0
					c.Col.Add(Violation{Prop: "C04", Sig: "a verification call never returns after earlier calls on the same instance (it returns on a fresh instance): " + verClass(cs.Ver),
						Detail: fmt.Sprintf("stuck for %v at call %d of the enumeration task (state %q, verifier %s); the replay re-runs the task", time.Since(first[i]).Round(time.Second), cs.Index, cs.Alive, cs.Ver), Case: mkCase("inputs", *cs)})
					c.Cov.NotExhaustive("enumeration stopped at a call that never returned")
					hangExit(c)
				}
				since[i] = time.Now()
			}
		}
	}
}

// replayHang is set while a recorded hang is being replayed: a confirmed hang then means
// "reproduced".
var replayHang bool

func hangExit(c *Ctx) {
	if replayHang {
		fmt.Println("REPRODUCED: the call does not return")
		os.Exit(1)
	}
	if c.Prop != "C04" {
		fmt.Println("NOTE: a verification call does not terminate (C04's concern); this run cannot complete")
	}
	os.Exit(Finish(c))
}

// stop reports (and records once per task) that the run's deadline has passed; long tasks poll it.
func (w *inWorker) stop(c *Ctx) bool {
	if w.tick.Load()&4095 != 0 {
		return w.stopped
	}
	if !w.stopped && c.Expired() {
		w.stopped = true
		c.Cov.NotExhaustive("deadline reached inside an enumeration task")
	}
	return w.stopped
}

func (w *inWorker) publish(ver string, n int, alive string, synthN uint64, targets []uint64, hashes, proof []Hash) {
	w.raw = rawCase{n: n, alive: alive, synthN: synthN, ver: ver, targets: targets, hashes: hashes, proof: proof}
	w.tick.Add(1)
}

func verClass(id string) string {
	for _, v := range stdVerifiers(true) {
		if v.ID == id {
			return v.Class
		}
	}
	return id
}

func pickVers(ids ...string) []verSpec {
	var out []verSpec
	for _, id := range ids {
		v, ok := specByID(id)
		if !ok {
			panic("unknown verifier " + id)
		}
		out = append(out, v)
	}
	return out
}

func specByID(id string) (verSpec, bool) {
	for _, v := range stdVerifiers(true) {
		if v.ID == id {
			return v, true
		}
	}
	return verSpec{}, false
}

// aliveKey is the alive bit string of the added leaves (without the base prefix of State.Key).
func aliveKey(s ref.State) string { return boolKey(s.Alive) }

func stateOfCase(cs inputCase) ref.State {
	s := ref.State{Base: cs.Base, Alive: make([]bool, len(cs.Alive))}
	for i, ch := range cs.Alive {
		s.Alive[i] = ch == '1'
	}
	return s
}

func synthStump(n uint64) *u.Stump {
	st := &u.Stump{NumLeaves: n}
	k := 0
	for h := 63; h >= 0; h-- {
		if n&(uint64(1)<<uint(h)) != 0 {
			st.Roots = append(st.Roots, ref.OpaqueHash(k))
			k++
		}
	}
	return st
}

// evalInputCase re-evaluates one recorded case on a fresh instance.
func evalInputCase(cs inputCase) []Violation {
	spec, ok := specByID(cs.Ver)
	if !ok {
		return []Violation{{Prop: "C04", Sig: "unknown verifier " + cs.Ver}}
	}
	var synth *u.Stump
	s := stateOfCase(cs)
	if cs.SynthN != 0 {
		synth = synthStump(cs.SynthN)
	}
	v, err := buildVinst(spec, s, synth)
	if err != nil || v == nil {
		return nil
	}
	var out []Violation
	inputsEval(v, unhexHs(cs.Hashes), u.Proof{Targets: append([]uint64(nil), cs.Targets...), Proof: unhexHs(cs.Proof)}, func(prop, sig, detail string) {
		out = append(out, Violation{Prop: prop, Sig: sig, Detail: detail, Case: mkCase("inputs", cs)})
	})
	return out
}

func evalInputCaseTimed(cs inputCase, limit time.Duration) ([]Violation, bool) {
	ch := make(chan []Violation, 1)
	go func() { ch <- evalInputCase(cs) }()
	select {
	case v := <-ch:
		return v, false
	case <-time.After(limit):
		return nil, true
	}
}

// ---------- alphabets ----------

// hashAlphabet: zero, every true node hash of the state, a dead leaf's hash, a fresh hash.
func hashAlphabet(s ref.State, L *ref.Layout) []Hash {
	alpha := []Hash{ref.Zero}
	seen := map[Hash]bool{ref.Zero: true}
	var ps []uint64
	for p := range L.At {
		ps = append(ps, p)
	}
	sort.Slice(ps, func(i, j int) bool { return ps[i] < ps[j] })
	for _, p := range ps {
		if h := L.At[p]; !seen[h] {
			seen[h] = true
			alpha = append(alpha, h)
		}
	}
	for i := 0; i < s.N(); i++ {
		if !s.Alive[i] {
			alpha = append(alpha, ref.LeafHash(i))
			break
		}
	}
	alpha = append(alpha, ref.FreshHash(7))
	return alpha
}

// offsetAlphabets: closed alphabets for a large offset-start state: hashes = zero, the first two
// and last two root hashes, every added node's hash, a dead leaf, a fresh hash; targets = the
// positions of those nodes, their siblings and parents, the first positions, the positions
// around the leaf count, row starts of the top rows and giants.
func offsetAlphabets(s ref.State, L *ref.Layout) (alpha []Hash, tvals []uint64) {
	alpha = []Hash{ref.Zero}
	seenH := map[Hash]bool{ref.Zero: true}
	tset := map[uint64]bool{}
	addH := func(h Hash) {
		if !seenH[h] {
			seenH[h] = true
			alpha = append(alpha, h)
		}
	}
	addP := func(p uint64) {
		tset[p] = true
		tset[p^1] = true
		if pp, ok := L.Parent[p]; ok {
			tset[pp] = true
		}
	}
	for i, rp := range L.RootPos {
		if i < 2 || i >= len(L.RootPos)-2 {
			addH(L.Roots[i])
			addP(rp)
		}
	}
	var ps []uint64
	for p := range L.At {
		if _, opaque := L.Opaque[p]; !opaque {
			ps = append(ps, p)
		}
	}
	sort.Slice(ps, func(i, j int) bool { return ps[i] < ps[j] })
	// the added leaves, and of the chain of nodes the additions created only the lowest three and
	// the highest two (a 2^32-1 base grows a chain of 32 new nodes)
	var inner []uint64
	for _, p := range ps {
		if _, leaf := L.IsLeaf[p]; leaf {
			addH(L.At[p])
			addP(p)
		} else {
			inner = append(inner, p)
		}
	}
	for i, p := range inner {
		if i < 3 || i >= len(inner)-2 {
			addH(L.At[p])
			addP(p)
		}
	}
	for i := 0; i < s.N(); i++ {
		if !s.Alive[i] {
			addH(ref.LeafHash(i))
			break
		}
	}
	addH(ref.FreshHash(7))
	n := s.Total()
	for _, x := range []uint64{0, 1, 2, n - 2, n - 1, n, n + 1, 1 << 31, 1 << 32, 1<<32 + 1, 1 << 63, ^uint64(0)} {
		tset[x] = true
	}
	for r := L.R; r+2 >= L.R && r <= L.R; r-- {
		st := ref.RowStart(r, L.R)
		tset[st], tset[st-1] = true, true
		if r == 0 {
			break
		}
	}
	for t := range tset {
		tvals = append(tvals, t)
	}
	sort.Slice(tvals, func(i, j int) bool { return tvals[i] < tvals[j] })
	return
}

func targetAlphabet(R uint8) []uint64 {
	var tv []uint64
	for p := uint64(0); p < (uint64(2)<<R)+3; p++ {
		tv = append(tv, p)
	}
	return append(tv, 1<<31, 1<<32-1, 1<<63-1, 1<<63, ^uint64(0))
}

// ---------- the exhaustive triple space ----------

type tripleCfg struct {
	Nmin, Nin, T, P int
	Vers            []verSpec
	Mismatch        bool        // also lists with len(hashes) != len(targets) (C04)
	Only            *inputCase  // replay: only the task of this case
	States          []ref.State // when set, these states instead of all states with Nmin<=N<=Nin
}

// enumTriples enumerates, for every state with Nmin<=N<=Nin and every verifier, every
// (targets, hashes, proof) with |targets|<=T, |proof|<=P over the state's alphabets.
func enumTriples(c *Ctx, cfg tripleCfg, props map[string]bool) {
	type task struct {
		s    ref.State
		spec verSpec
		t0   int // index of the first target value (-1: the empty target list)
	}
	var tasks []task
	nstates := 0
	states := cfg.States
	if states == nil {
		for N := cfg.Nmin; N <= cfg.Nin; N++ {
			for mask := 0; mask < 1<<uint(N); mask++ {
				s := ref.State{Alive: make([]bool, N)}
				for i := 0; i < N; i++ {
					s.Alive[i] = mask&(1<<uint(i)) != 0
				}
				states = append(states, s)
			}
		}
	}
	{
		for _, s := range states {
			N := s.N()
			nstates++
			nt := len(targetAlphabet(ref.RowsFor(uint64(N))))
			if s.Base > 0 {
				_, tv := offsetAlphabets(s, ref.APILayout(s))
				nt = len(tv)
			}
			for _, spec := range cfg.Vers {
				for t0 := -1; t0 < nt; t0++ {
					if cfg.T == 0 && t0 >= 0 {
						break
					}
					if o := cfg.Only; o != nil && (o.Alive != aliveKey(s) || o.Base != s.Base || o.N != N || o.Ver != spec.ID || o.Task.T0 != t0) {
						continue
					}
					tasks = append(tasks, task{s, spec, t0})
				}
			}
		}
	}
	c.Cov.AddStates(int64(nstates))
	var sampled int32
	runInputTasks(c, len(tasks), func(i int, w *inWorker) {
		tk := tasks[i]
		w.task = &inTask{Kind: "triples", T: cfg.T, P: cfg.P, Mismatch: cfg.Mismatch, T0: tk.t0}
		v, err := buildVinst(tk.spec, tk.s, nil)
		if err != nil || v == nil {
			c.Col.Note("inputs: instance could not be built: " + tk.spec.ID)
			return
		}
		var alpha []Hash
		var tvals []uint64
		if tk.s.Base > 0 {
			alpha, tvals = offsetAlphabets(tk.s, v.L)
		} else {
			alpha, tvals = hashAlphabet(tk.s, v.L), targetAlphabet(v.L.R)
		}
		aliveKey := aliveKey(tk.s)
		var evals, accepted int64
		cs := &inputCase{N: tk.s.N(), Base: tk.s.Base, Alive: aliveKey, Ver: tk.spec.ID}
		try := func(targets []uint64, hashes []Hash) {
			// proofs of every length 0..P over the alphabet
			pr := make([]Hash, 0, cfg.P)
			var rec func(depth int)
			rec = func(depth int) {
				if w.stop(c) {
					return
				}
				w.publish(cs.Ver, cs.N, cs.Alive, 0, targets, hashes, pr)
				w.raw.base = cs.Base
				if v.dirty {
					nv, err := buildVinst(tk.spec, tk.s, nil)
					if err != nil || nv == nil {
						return
					}
					v = nv
				}
				evals++
				p := u.Proof{Targets: targets, Proof: pr}
				if inputsEval(v, hashes, p, func(prop, sig, detail string) {
					if props[prop] {
						c.Col.Add(Violation{Prop: prop, Sig: sig, Detail: detail, Case: mkCase("inputs", inputCase{N: cs.N, Base: cs.Base, Alive: cs.Alive, Ver: cs.Ver, Targets: append([]uint64(nil), targets...), Hashes: hexHs(hashes), Proof: hexHs(pr)})})
					} else {
						c.Col.Note("other:" + prop + " " + sig)
					}
				}) {
					accepted++
					if len(targets) > 0 && atomic.AddInt32(&sampled, 1) <= 3 {
						c.Cov.Sample(map[string]any{"state": aliveKey, "verifier": tk.spec.ID, "targets": append([]uint64(nil), targets...), "hashes": shortHs(hashes), "proof": shortHs(pr), "accepted": true})
					}
				}
				if depth == cfg.P {
					return
				}
				for _, h := range alpha {
					pr = append(pr, h)
					rec(depth + 1)
					pr = pr[:len(pr)-1]
				}
			}
			rec(0)
		}
		var recT func(targets []uint64, hashes []Hash)
		recT = func(targets []uint64, hashes []Hash) {
			try(targets, hashes)
			if cfg.Mismatch && len(targets) <= 1 {
				if len(hashes) > 0 {
					try(targets, hashes[:len(hashes)-1])
				}
				try(targets, append(append([]Hash(nil), hashes...), alpha[len(alpha)-1]))
			}
			if len(targets) == cfg.T {
				return
			}
			for _, t := range tvals {
				for _, h := range alpha {
					recT(append(append([]uint64(nil), targets...), t), append(append([]Hash(nil), hashes...), h))
				}
			}
		}
		if tk.t0 < 0 {
			try(nil, nil)
			if cfg.Mismatch {
				try(nil, []Hash{alpha[len(alpha)-1]})
			}
		} else {
			for _, h := range alpha {
				recT([]uint64{tvals[tk.t0]}, []Hash{h})
			}
		}
		c.Cov.AddEvals(evals)
		c.Cov.AddTransitions(evals)
		c.Cov.AddNontrivial(accepted)
		c.Cov.AddExtra("accepted_inputs", accepted)
	})
}

// ---------- synthetic giant stumps (C04) ----------

func enumSynth(c *Ctx, T, P int) {
	var ns []uint64
	for n := uint64(0); n <= 17; n++ {
		ns = append(ns, n)
	}
	ns = append(ns, 1<<31, 1<<32-1, 1<<32+1, 1<<62+1, 1<<63-1, 1<<63, 1<<63+1, ^uint64(0))
	vers := []verSpec{
		{ID: "Verify", Class: "Verify", Kind: "verify"},
		{ID: "Stump.Update+0", Class: "Stump.Update", Kind: "update"},
		{ID: "Stump.Update+2", Class: "Stump.Update", Kind: "update", Adds: 2},
		{ID: "MapPollard(partial:none,TR=63).Verify(remember=true)", Class: "MapPollard(partial).Verify", Kind: "map", TR: 63, Cache: "none", Remember: true},
		{ID: "MapPollard(partial:none,TR=63).VerifyPartialProof(remember=false)", Class: "MapPollard.VerifyPartialProof", Kind: "partialproof", TR: 63, Cache: "none"},
	}
	type task struct {
		n    uint64
		spec verSpec
	}
	var tasks []task
	for _, n := range ns {
		for _, sp := range vers {
			tasks = append(tasks, task{n, sp})
		}
	}
	c.Cov.AddStates(int64(len(ns)))
	runInputTasks(c, len(tasks), func(i int, w *inWorker) {
		tk := tasks[i]
		synth := synthStump(tk.n)
		v, err := buildVinst(tk.spec, ref.State{}, synth)
		if err != nil || v == nil {
			return
		}
		R := ref.RowsFor(tk.n)
		tset := map[uint64]bool{}
		addT := func(x uint64) { tset[x] = true }
		for x := uint64(0); x < 3; x++ {
			addT(x)
			addT(tk.n - x)
			addT(tk.n + x)
			addT(^uint64(0) - x)
		}
		if R <= 63 {
			for r := uint8(0); r <= R && r <= 63; r++ {
				st := ref.RowStart(r, R)
				if r < 3 || r+2 > R {
					addT(st)
					addT(st - 1)
				}
			}
			for i, rp := range u.RootPositions(tk.n, R) {
				if i < 2 || rp < 8 {
					addT(rp)
					addT(rp ^ 1)
				}
			}
		}
		addT(uint64(1) << 31)
		addT(uint64(1) << 63)
		var tvals []uint64
		for t := range tset {
			tvals = append(tvals, t)
		}
		sort.Slice(tvals, func(i, j int) bool { return tvals[i] < tvals[j] })
		alpha := []Hash{ref.Zero, ref.FreshHash(7)}
		for i := range synth.Roots {
			if i < 2 || i == len(synth.Roots)-1 {
				alpha = append(alpha, synth.Roots[i])
			}
		}
		var evals int64
		try := func(targets []uint64, hashes []Hash) {
			P := P
			if len(targets) >= 2 {
				P = 1 // two-target inputs get proofs of length <= 1
			}
			pr := make([]Hash, 0, P)
			var rec func(depth int)
			rec = func(depth int) {
				if w.stop(c) {
					return
				}
				w.publish(tk.spec.ID, 0, "", tk.n, targets, hashes, pr)
				if v.dirty {
					v, _ = buildVinst(tk.spec, ref.State{}, synth)
				}
				evals++
				inputsEval(v, hashes, u.Proof{Targets: targets, Proof: pr}, func(prop, sig, detail string) {
					if prop == "C04" {
						c.Col.Add(Violation{Prop: prop, Sig: sig + " (synthetic stump)", Detail: detail, Case: mkCase("inputs", w.raw.toCase())})
					}
				})
				if depth == P {
					return
				}
				for _, h := range alpha {
					pr = append(pr, h)
					rec(depth + 1)
					pr = pr[:len(pr)-1]
				}
			}
			rec(0)
		}
		var recT func(targets []uint64, hashes []Hash)
		recT = func(targets []uint64, hashes []Hash) {
			try(targets, hashes)
			if len(hashes) > 0 {
				try(targets, hashes[:len(hashes)-1])
			}
			if len(targets) == T {
				return
			}
			for _, t := range tvals {
				for _, h := range alpha[1:] {
					recT(append(append([]uint64(nil), targets...), t), append(append([]Hash(nil), hashes...), h))
				}
			}
		}
		recT(nil, nil)
		c.Cov.AddEvals(evals)
		c.Cov.AddTransitions(evals)
		c.Cov.AddExtra("synthetic_stump_inputs", evals)
		if tk.n > 17 {
			c.Cov.AddNontrivial(evals)
		}
	})
}

// ---------- edit neighbourhoods of honest proofs on larger forests ----------

// enumEdits: for every state with Nlo<=N<=Nhi (all alive subsets), every non-empty live leaf set
// of at most K leaves in position order and in reversed order, the honest proof and every
// single edit of it (and every pair of edits when double is set) are fed to every verifier.
func enumEdits(c *Ctx, Nlo, Nhi, K int, double bool, vers []verSpec, props map[string]bool) {
	enumEditsOnly(c, Nlo, Nhi, K, double, vers, props, nil)
}

func enumEditsOnly(c *Ctx, Nlo, Nhi, K int, double bool, vers []verSpec, props map[string]bool, only *inputCase) {
	var states []ref.State
	for N := Nlo; N <= Nhi; N++ {
		for mask := 1; mask < 1<<uint(N); mask++ {
			s := ref.State{Alive: make([]bool, N)}
			for i := 0; i < N; i++ {
				s.Alive[i] = mask&(1<<uint(i)) != 0
			}
			states = append(states, s)
		}
	}
	enumEditsStates(c, states, K, double, vers, props, only)
}

func enumEditsStates(c *Ctx, states []ref.State, K int, double bool, vers []verSpec, props map[string]bool, only *inputCase) {
	type task struct {
		s    ref.State
		spec verSpec
	}
	var tasks []task
	nstates := 0
	for _, s := range states {
		nstates++
		for _, sp := range vers {
			if only != nil && (only.Alive != aliveKey(s) || only.Base != s.Base || only.Ver != sp.ID) {
				continue
			}
			tasks = append(tasks, task{s, sp})
		}
	}
	c.Cov.AddStates(int64(nstates))
	runInputTasks(c, len(tasks), func(i int, w *inWorker) {
		tk := tasks[i]
		w.task = &inTask{Kind: "edits", K: K, Double: double}
		v, err := buildVinst(tk.spec, tk.s, nil)
		if err != nil || v == nil {
			return
		}
		var alpha []Hash
		var tvals []uint64
		if tk.s.Base > 0 {
			alpha, tvals = offsetAlphabets(tk.s, v.L)
		} else {
			alpha, tvals = hashAlphabet(tk.s, v.L), targetAlphabet(v.L.R)
		}
		var evals, accepted int64
		eval := func(ts []uint64, hs []Hash, pr []Hash) {
			if w.stop(c) {
				return
			}
			w.publish(tk.spec.ID, tk.s.N(), aliveKey(tk.s), 0, ts, hs, pr)
			w.raw.base = tk.s.Base
			if v.dirty {
				v, _ = buildVinst(tk.spec, tk.s, nil)
			}
			evals++
			if inputsEval(v, hs, u.Proof{Targets: ts, Proof: pr}, func(prop, sig, detail string) {
				if props[prop] {
					c.Col.Add(Violation{Prop: prop, Sig: sig, Detail: detail, Case: mkCase("inputs", w.raw.toCase())})
				}
			}) {
				accepted++
			}
		}
		type triple struct {
			ts []uint64
			hs []Hash
			pr []Hash
		}
		edits := func(b triple) []triple {
			var out []triple
			cp := func() triple {
				return triple{append([]uint64(nil), b.ts...), append([]Hash(nil), b.hs...), append([]Hash(nil), b.pr...)}
			}
			for i := range b.ts {
				for _, t := range tvals {
					if t != b.ts[i] {
						e := cp()
						e.ts[i] = t
						out = append(out, e)
					}
				}
				for _, h := range alpha {
					if h != b.hs[i] {
						e := cp()
						e.hs[i] = h
						out = append(out, e)
					}
				}
				// drop, duplicate, swap with next
				e := cp()
				e.ts = append(e.ts[:i], e.ts[i+1:]...)
				e.hs = append(e.hs[:i], e.hs[i+1:]...)
				out = append(out, e)
				e = cp()
				e.ts = append(e.ts, b.ts[i])
				e.hs = append(e.hs, b.hs[i])
				out = append(out, e)
				if i+1 < len(b.ts) {
					e = cp()
					e.ts[i], e.ts[i+1] = e.ts[i+1], e.ts[i]
					out = append(out, e)
					e = cp()
					e.hs[i], e.hs[i+1] = e.hs[i+1], e.hs[i]
					out = append(out, e)
				}
			}
			for j := range b.pr {
				for _, h := range alpha {
					if h != b.pr[j] {
						e := cp()
						e.pr[j] = h
						out = append(out, e)
					}
				}
				e := cp()
				e.pr = append(e.pr[:j], e.pr[j+1:]...)
				out = append(out, e)
				if j+1 < len(b.pr) {
					e = cp()
					e.pr[j], e.pr[j+1] = e.pr[j+1], e.pr[j]
					out = append(out, e)
				}
			}
			for _, h := range alpha {
				e := cp()
				e.pr = append(e.pr, h)
				out = append(out, e)
			}
			return out
		}
		live := tk.s.Live()
		var sets [][]int
		for _, set := range subsets(live, false) {
			if len(set) <= K {
				sets = append(sets, set)
			}
		}
		for _, set := range sets {
			orders := [][]int{set}
			if len(set) > 1 {
				rev := make([]int, len(set))
				for i, x := range set {
					rev[len(set)-1-i] = x
				}
				orders = append(orders, rev)
			}
			for _, order := range orders {
				hp := v.L.Proof(order)
				base := triple{hp.Targets, ref.Hashes(order), hp.Proof}
				eval(base.ts, base.hs, base.pr)
				for _, e1 := range edits(base) {
					eval(e1.ts, e1.hs, e1.pr)
					if double {
						for _, e2 := range edits(e1) {
							eval(e2.ts, e2.hs, e2.pr)
						}
					}
				}
			}
		}
		c.Cov.AddEvals(evals)
		c.Cov.AddTransitions(evals)
		c.Cov.AddNontrivial(accepted)
		c.Cov.AddExtra("accepted_inputs", accepted)
		c.Cov.AddExtra("edit_neighbourhood_inputs", evals)
	})
}

// offsetStates: Base in bases, 0..nAdd added leaves, every alive subset.
func offsetStates(bases []uint64, nAdd int) []ref.State {
	var out []ref.State
	for _, b := range bases {
		for n := 0; n <= nAdd; n++ {
			if b+uint64(n) > uint64(1)<<63 {
				break
			}
			for mask := 0; mask < 1<<uint(n); mask++ {
				s := ref.State{Base: b, Alive: make([]bool, n)}
				for i := 0; i < n; i++ {
					s.Alive[i] = mask&(1<<uint(i)) != 0
				}
				out = append(out, s)
			}
		}
	}
	return out
}

// offsetVerifiers are the entry points that can exist on an accumulator started from bare roots.
func offsetVerifiers(update bool) []verSpec {
	ids := []string{"Verify", "MapPollard(partial:all,TR=63).Verify(remember=false)", "MapPollard(partial:all,TR=63).Verify(remember=true)", "MapPollard(partial:none,TR=63).VerifyPartialProof(remember=false)"}
	if update {
		ids = append(ids, "Stump.Update+0", "Stump.Update+2")
	}
	return pickVers(ids...)
}

func init() {
	Engines["inputs"] = func(prop string, payload json.RawMessage) ([]Violation, error) {
		var cs inputCase
		if err := json.Unmarshal(payload, &cs); err != nil {
			return nil, err
		}
		if cs.Task != nil {
			// a hang that depends on earlier calls of the task: re-run the task under the watchdog
			replayHang = true
			c := NewCtx(prop, "quick")
			c.Deadline = time.Now().Add(30 * time.Minute)
			c.Workers = 1
			spec, ok := specByID(cs.Ver)
			if !ok {
				return nil, fmt.Errorf("unknown verifier %s", cs.Ver)
			}
			switch cs.Task.Kind {
			case "triples":
				enumTriples(c, tripleCfg{States: []ref.State{stateOfCase(cs)}, T: cs.Task.T, P: cs.Task.P, Mismatch: cs.Task.Mismatch, Vers: []verSpec{spec}, Only: &cs}, map[string]bool{})
			case "edits":
				enumEditsStates(c, []ref.State{stateOfCase(cs)}, cs.Task.K, cs.Task.Double, []verSpec{spec}, map[string]bool{}, &cs)
			}
			replayHang = false
			return nil, nil // the task ran to completion: not reproduced
		}
		vs, timedOut := evalInputCaseTimed(cs, hangLimit)
		if timedOut {
			return []Violation{{Prop: "C04", Sig: "verification entry point does not return: " + verClass(cs.Ver), Detail: "no return within the limit", Case: Case{Engine: "inputs", Payload: payload}}}, nil
		}
		var out []Violation
		for _, v := range vs {
			if v.Prop == prop {
				v.Case = Case{Engine: "inputs", Payload: payload}
				out = append(out, v)
			}
		}
		return out, nil
	}

	Checks["C03"] = func(c *Ctx) {
		c.Cov.Rule = "for every accumulator state with N<=Nin leaves ever added (every alive subset) and every verifier (Verify, Pollard.Verify, MapPollard.Verify full/partial x TotalRows x remember, VerifyPartialProof), every (targets, hashes, proof) triple with |targets|<=T and |proof|<=P over targets in [0,2^(rows+1)+2] plus five giant values and hashes in {zero, every node hash of the state, a dead leaf, a fresh hash}; plus every single edit (thorough: every pair of edits) of every honest proof of up to K leaves for the states with N<=Nedit; oracle: accepted and all supplied hashes non-zero implies every hash sits at its claimed position in the reference forest; plus the stale-claim family (instances with a history of blocks, one Verify(remember) and one Undo are offered every honest proof of the neighbouring state); states = accumulator states, transitions = verifier calls, non-trivial = accepted inputs"
		props := map[string]bool{"C03": true}
		vers := stdVerifiers(c.Thorough())
		var sound []verSpec
		for _, v := range vers {
			if v.Kind != "update" {
				sound = append(sound, v)
			}
		}
		cfgA := tripleCfg{Nmin: 0, Nin: pick(c, 3, 3), T: 2, P: pick(c, 2, 3), Vers: sound}
		c.Cov.Bound["A"] = fmt.Sprintf("N<=%d T<=%d P<=%d, %d verifiers", cfgA.Nin, cfgA.T, cfgA.P, len(sound))
		enumTriples(c, cfgA, props)
		main := pickVers("Verify", "Pollard.Verify", "MapPollard(full,TR=0).Verify", "MapPollard(partial:all,TR=3).Verify(remember=true)", "MapPollard(partial:none,TR=63).VerifyPartialProof(remember=false)")
		cfgB := tripleCfg{Nmin: 4, Nin: pick(c, 4, 5), T: 1, P: 3, Vers: main}
		c.Cov.Bound["B"] = fmt.Sprintf("N in %d..%d T<=%d P<=%d, %d verifiers", cfgB.Nmin, cfgB.Nin, cfgB.T, cfgB.P, len(main))
		enumTriples(c, cfgB, props)
		cfgB2 := tripleCfg{Nmin: 4, Nin: 4, T: 2, P: 2, Vers: main}
		c.Cov.Bound["B2"] = fmt.Sprintf("N=4 T<=2 P<=%d, %d verifiers", cfgB2.P, len(main))
		enumTriples(c, cfgB2, props)
		if c.Thorough() {
			cfgC := tripleCfg{Nmin: 0, Nin: 3, T: 3, P: 2, Vers: main[:2]}
			c.Cov.Bound["C"] = "N<=3 T<=3 P<=2, Verify and Pollard.Verify"
			enumTriples(c, cfgC, props)
			cfgD := tripleCfg{Nmin: 4, Nin: 4, T: 2, P: 3, Vers: main[:3]}
			c.Cov.Bound["D"] = "N=4 T<=2 P<=3, Verify, Pollard.Verify, MapPollard(full)"
			enumTriples(c, cfgD, props)
		}
		Ne, K := pick(c, 6, 8), pick(c, 3, 3)
		c.Cov.Bound["edits"] = fmt.Sprintf("single edits of honest proofs of <=%d leaves, N in 4..%d, all verifiers", K, Ne)
		enumEdits(c, 4, Ne, K, false, sound, props)
		// offset-start states: accumulators of 2^5 .. 2^63-4 leaves (synthetic opaque trees) plus up
		// to two added leaves; the reference forest knows the roots and every added node, and every
		// claim about any other position is false (no preimage is in the alphabet)
		ost := offsetStates(offsetBases(c.Thorough()), 2)
		c.Cov.Bound["offset_start"] = fmt.Sprintf("%d states (bases %v, 0..2 added leaves): triples T<=1 P<=2 (thorough: also T<=2 P=0 on the quick base list); single edits of honest proofs (up to 63 proof hashes)", len(ost), offsetBases(c.Thorough()))
		enumTriples(c, tripleCfg{States: ost, T: 1, P: 2, Vers: offsetVerifiers(false)}, props)
		if c.Thorough() {
			enumTriples(c, tripleCfg{States: offsetStates(offsetBases(false), 2), T: 2, P: 0, Vers: offsetVerifiers(false)[:2]}, props)
		}
		enumEditsStates(c, ost, 2, false, offsetVerifiers(false), props, nil)
		if c.Thorough() {
			c.Cov.Bound["double_edits"] = "pairs of edits of honest proofs of <=2 leaves, N in 3..6, Verify/Pollard.Verify/MapPollard"
			enumEdits(c, 3, 6, 2, true, main, props)
		}
		enumRepeats(c, sound, props)
		// verifiers with a history: instances that went through blocks, a Verify(remember) call and an
		// Undo are offered every honest proof of the neighbouring state (before the last block / before
		// the last undo); an accepted claim must be true now
		if !c.Expired() {
			ns := pick(c, 4, 5)
			c.Cov.Bound["stale_claims"] = fmt.Sprintf("BFS over block histories N<=%d with one undo and one Verify(remember) transition; Stump, Pollard, MapPollard full/partial TR 0,63; every honest proof of the neighbouring state", ns)
			BFS(c, &HistFamily{Nmax: ns, Insts: stdInsts([]uint8{0, 63}, []string{"all", "none"}), Or: HistOracle{Stale: true, Prop: "C03"}, UndoBud: 1, VerBud: 1}, 0)
			// the same with remembered INTERNAL nodes: the one Verify(remember) may be a true claim about an internal
			// node (partial map forests), and every internal node of the neighbouring state is offered as well, also
			// through VerifyPartialProof
			if !c.Expired() {
				c.Cov.Bound["stale_claims_nodes"] = fmt.Sprintf("the same, N<=%d, Verify(remember) also of one internal node, claims about leaf sets and internal nodes, Verify and VerifyPartialProof", ns)
				BFS(c, &HistFamily{Nmax: ns, Insts: stdInsts([]uint8{0, 63}, []string{"all", "none"}), Or: HistOracle{Stale: true, Prop: "C03"}, UndoBud: 1, VerBud: 1, NodeVer: true}, 0)
			}
		}
	}

	Checks["C04"] = func(c *Ctx) {
		c.Cov.Rule = "the C03 input space extended with mismatched list lengths (one hash more / one fewer than targets, for lists of up to one target, and hashes without targets), run through every entry point including Stump.Update with 0 and 2 additions, plus synthetic stumps with NumLeaves in {0..17, 2^31, 2^32-1, 2^32+1, 2^62+1, 2^63-1, 2^63, 2^63+1, 2^64-1} (popcount fresh roots) with boundary targets up to 2^64-1; oracle: no panic, every call returns (a watchdog re-executes any call that makes no progress for 20 s and reports it only if it never returns), and a rejected Stump.Update leaves the leaf count and every root unchanged; states = accumulator states, transitions = calls, non-trivial = accepted inputs and synthetic giant-stump inputs"
		props := map[string]bool{"C04": true}
		vers := stdVerifiers(c.Thorough())
		cfgA := tripleCfg{Nmin: 0, Nin: 3, T: 2, P: 2, Vers: vers, Mismatch: true}
		c.Cov.Bound["A"] = fmt.Sprintf("N<=%d T<=%d P<=%d with length mismatches, %d entry points", cfgA.Nin, cfgA.T, cfgA.P, len(vers))
		enumTriples(c, cfgA, props)
		main := pickVers("Verify", "Pollard.Verify", "Stump.Update+0", "Stump.Update+2", "MapPollard(full,TR=0).Verify", "MapPollard(partial:all,TR=3).Verify(remember=true)", "MapPollard(partial:none,TR=63).VerifyPartialProof(remember=false)")
		cfgB := tripleCfg{Nmin: 4, Nin: pick(c, 4, 5), T: 1, P: 3, Vers: main, Mismatch: true}
		c.Cov.Bound["B"] = fmt.Sprintf("N in %d..%d T<=%d P<=%d, %d entry points", cfgB.Nmin, cfgB.Nin, cfgB.T, cfgB.P, len(main))
		enumTriples(c, cfgB, props)
		if c.Thorough() {
			cfgB2 := tripleCfg{Nmin: 4, Nin: 4, T: 2, P: 2, Vers: main, Mismatch: true}
			c.Cov.Bound["B2"] = fmt.Sprintf("N=4 T<=2 P<=2, %d entry points", len(main))
			enumTriples(c, cfgB2, props)
		}
		c.Cov.Bound["synthetic"] = fmt.Sprintf("T<=2, P<=%d for one target, P<=1 for two", pick(c, 2, 3))
		enumSynth(c, 2, pick(c, 2, 3))
		Ne := pick(c, 6, 8)
		c.Cov.Bound["edits"] = fmt.Sprintf("single edits of honest proofs of <=3 leaves, N in 4..%d, all entry points", Ne)
		enumEdits(c, 4, Ne, 3, false, vers, props)
		ost := offsetStates(offsetBases(c.Thorough()), 2)
		c.Cov.Bound["offset_start"] = fmt.Sprintf("%d states (bases %v, 0..2 added leaves): triples T<=1 P<=1 with mismatches; single edits of honest proofs", len(ost), offsetBases(c.Thorough()))
		enumTriples(c, tripleCfg{States: ost, T: 1, P: 1, Mismatch: true, Vers: offsetVerifiers(true)}, props)
		enumEditsStates(c, ost, 2, false, offsetVerifiers(true), props, nil)
	}
}

// enumRepeats: honest one-leaf proofs extended by k copies of a FALSE claim about an ancestor of the
// leaf (a nested target repeated k times, k around 256), with every upper sibling hash supplied k+1
// times - the shape in which a count of calculated roots kept in 8 bits would wrap. Every verifier
// must reject (or, if it accepts, the claims must be true, which they are not).
func enumRepeats(c *Ctx, vers []verSpec, props map[string]bool) {
	s := ref.State{}.Apply(nil, 8)
	type task struct {
		spec verSpec
		r    uint8
		k    int
		h    Hash
	}
	var tasks []task
	for _, sp := range vers {
		for _, r := range []uint8{1, 2} {
			for _, k := range []int{255, 256, 257, 511, 512, 513} {
				for _, h := range []Hash{ref.LeafHash(5), ref.FreshHash(3)} {
					tasks = append(tasks, task{sp, r, k, h})
				}
			}
		}
	}
	c.Cov.Bound["repeated_nested_targets"] = "8 leaves: leaf 0 plus k in {255,256,257,511,512,513} copies of a false claim at its row-1 / row-2 ancestor, upper sibling hashes k+1 times"
	runInputTasks(c, len(tasks), func(i int, w *inWorker) {
		tk := tasks[i]
		w.task = nil
		v, err := buildVinst(tk.spec, s, nil)
		if err != nil || v == nil {
			return
		}
		L := v.L
		hp := L.Proof([]int{0}) // targets [0], proof = siblings bottom-up
		anc := ref.PosOf(tk.r, 0, L.R)
		ts := []uint64{0}
		hs := []Hash{ref.LeafHash(0)}
		for j := 0; j < tk.k; j++ {
			ts = append(ts, anc)
			hs = append(hs, tk.h)
		}
		var pr []Hash
		for row, sib := range hp.Proof {
			if uint8(row) < tk.r {
				pr = append(pr, sib)
				continue
			}
			for j := 0; j <= tk.k; j++ {
				pr = append(pr, sib)
			}
		}
		w.publish(tk.spec.ID, s.N(), aliveKey(s), 0, ts, hs, pr)
		inputsEval(v, hs, u.Proof{Targets: ts, Proof: pr}, func(prop, sig, detail string) {
			if props[prop] {
				if len(detail) > 600 {
					detail = detail[:600] + " ..."
				}
				c.Col.Add(Violation{Prop: prop, Sig: sig, Detail: detail, Case: mkCase("inputs", w.raw.toCase())})
			}
		})
		c.Cov.AddEvals(1)
		c.Cov.AddTransitions(1)
	})
}
