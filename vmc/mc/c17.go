package mc

import "fmt"

// C17 rides on the other families: every call into the library goes through the Exec wrappers,
// which snapshot every caller-owned slice before the call and compare afterwards, and which
// keep private copies of previously returned results that are re-checked at the end of every
// path. Here the families are re-run with the collector set to C17.
func init() {
	Checks["C17"] = func(c *Ctx) {
		c.Cov.Rule = "the forward+proofs, undo, light-client (Update/Undo), partial-forest (Verify(remember), Ingest, Prune, Undo, VerifyPartialProof) and proof-helper (AddProof, GetProofSubset, MapPollard.GetMissingPositions) searches, and the medium / aligned-union / very tall structured families (11..1025 leaves), are re-run with every library call wrapped: each hash/leaf/target/proof slice passed in is snapshotted before the call and compared after it; each result returned earlier (proofs, roots, update data, cached hashes) is kept with a private copy and compared at the end of the path; the same block data object is passed to Verify, every instance's Modify, Undo and re-apply; states/transitions as in the host searches; non-trivial = distinct concrete states with a dead leaf or after undo"
		n1 := pick(c, 5, 7)
		c.Cov.Bound["forward+proofs Nmax"] = n1
		BFS(c, &HistFamily{Nmax: n1, Insts: stdInsts([]uint8{0, 63}, []string{"all", "none"}), Or: HistOracle{Roots: true, Proofs: true, Prop: "C02", ProofSets: "small"}, PermLimit: 2, Collect: "C17"}, 0)
		n2 := pick(c, 4, 5)
		c.Cov.Bound["undo Nmax/budget"] = fmt.Sprintf("%d/%d (+roundtrip 1)", n2, pick(c, 1, 2))
		BFS(c, &HistFamily{Nmax: n2, Insts: stdInsts([]uint8{0, 63}, []string{"all", "none"})[1:], Or: HistOracle{Roots: true, Proofs: true, Prop: "C06", ProofSets: "small"}, UndoBud: pick(c, 1, 2), RTBud: 1, PermLimit: 2, Collect: "C17"}, 0)
		n3 := pick(c, 4, 6)
		c.Cov.Bound["light Nmax/undo"] = fmt.Sprintf("%d/1", n3)
		BFS(c, &LightFamily{Nmax: n3, UndoBud: 1, Prop: "C08", Collect: "C17"}, 0)
		n4 := pick(c, 4, 5)
		c.Cov.Bound["partial Nmax"] = n4
		for _, tr := range []uint8{0, 63} {
			BFS(c, &PartialFamily{Nmax: n4, TR: tr, UndoBud: 1, FRBud: 1, Junk: true, SetLimit: 2, Prop: "C09", Collect: "C17"}, 0)
		}
		// the larger structured families (11..1025 leaves, long proofs): slices that only alias or
		// get edited in place beyond a certain size
		tallFamily(c, "C17")
		lightMedium(c, "C08", true, "C17")
		partialMedium(c, "C17")
		runHelpers(c, "C17")
		c.Cov.Rule = "C17: " + c.Cov.Rule
	}
}
