package mc

import (
	"encoding/json"
	"fmt"
	"sort"
	"strings"
	"sync/atomic"

	u "github.com/utreexo/utreexo"
	"vmc/ref"
)

// LightFamily: explicit-state search over light-client histories (C07, C08, C11). The client
// holds only a Stump, a Proof and its leaf hashes; each block is applied with Stump.Update
// followed by Proof.Update; Undo transitions call Proof.Undo with the undone block's data.
type LightFamily struct {
	Nmax    int
	UndoBud int
	Prop    string // C07 | C08 | C11: which oracle clauses are reported
	ArgRev  bool   // block targets and their hashes are handed to Stump.Update / Proof.Update / Proof.Undo in descending order
	RemMode string // "" = every subset of the additions (ascending index lists); "desc" = the same in descending order; "all"; "none"
	Collect string // when set, violations of this property are collected instead of Prop's
	// Base > 0: the client starts from bare roots of an accumulator that already holds Base
	// leaves (opaque, undeletable trees with synthetic root hashes): rows up to 63.
	Base uint64
}

type lightFrame struct {
	prev      ref.State
	prevDump  string
	op        Op
	ud        u.UpdateData
	proof     u.Proof
	dh        []Hash
	prevStump u.Stump
	cachedPre []bool
}

type lightModel struct {
	s       ref.State
	cached  []bool
	stack   []lightFrame
	undoBud int
	hasUndo bool
	// lastUndone is the frame undone by the last operation (nil unless the last op was an undo)
	lastUndone *lightFrame
}

func (m *lightModel) AbstractKey() string { return m.s.Key() + "/" + boolKey(m.cached) }

func boolKey(b []bool) string {
	var sb strings.Builder
	for _, x := range b {
		if x {
			sb.WriteByte('1')
		} else {
			sb.WriteByte('0')
		}
	}
	return sb.String()
}

type lightClient struct {
	stump  u.Stump
	proof  u.Proof
	hashes []Hash
	pol    u.Pollard // a full prover run alongside: "equals what a full prover would emit"
}

func (c *lightClient) dump() string {
	return fmt.Sprintf("S%d:%s|T%v|P%s|H%s", c.stump.NumLeaves, shortHs(c.stump.Roots), c.proof.Targets, shortHs(c.proof.Proof), shortHs(c.hashes))
}

func (f *LightFamily) Root() (*Node, string) {
	return &Node{Model: &lightModel{s: ref.State{Base: f.Base}, undoBud: f.UndoBud}}, "root"
}

func (f *LightFamily) Ops(n *Node) []Op {
	md := n.Model.(*lightModel)
	var ops []Op
	live := md.s.Live()
	for _, dels := range subsets(live, true) {
		for adds := 0; md.s.N()+adds <= f.Nmax; adds++ {
			if adds == 0 && len(dels) == 0 {
				continue
			}
			if md.s.Total()+uint64(adds) > uint64(1)<<63 {
				break // forests of more than 63 rows are outside every property's scope
			}
			idx := make([]int, adds)
			for i := range idx {
				idx[i] = i
			}
			switch f.RemMode {
			case "all":
				ops = append(ops, Op{Kind: "block", Dels: dels, Adds: adds, Rem: idx})
			case "none":
				ops = append(ops, Op{Kind: "block", Dels: dels, Adds: adds, Rem: []int{}})
			default:
				for _, rem := range subsets(idx, true) {
					if rem == nil {
						rem = []int{}
					}
					if f.RemMode == "desc" {
						// the same subsets, each listed in descending order
						for i, j := 0, len(rem)-1; i < j; i, j = i+1, j-1 {
							rem[i], rem[j] = rem[j], rem[i]
						}
					}
					ops = append(ops, Op{Kind: "block", Dels: dels, Adds: adds, Rem: rem})
				}
			}
		}
	}
	if md.undoBud > 0 && len(md.stack) > 0 {
		ops = append(ops, Op{Kind: "undo"})
	}
	return ops
}

type lightPayload struct {
	Fam  LightFamily `json:"family"`
	Hist []Op        `json:"history"`
}

// run replays hist on a fresh client. The oracle for the update data (C11) and for the cached
// proof (C07/C08) is evaluated for the last operation only; earlier ones were checked when
// their state was first reached. ok=false when a substrate call failed.
func (f *LightFamily) run(x *Exec, hist []Op) (*lightClient, *lightModel, bool, int64) {
	c := &lightClient{pol: u.NewAccumulator()}
	md := &lightModel{s: ref.State{Base: f.Base}, undoBud: f.UndoBud}
	if f.Base > 0 {
		c.stump = u.Stump{Roots: append([]Hash(nil), ref.APILayout(md.s).Roots...), NumLeaves: f.Base}
	}
	withProver := f.Base == 0
	var evals int64
	for i, op := range hist {
		last := i == len(hist)-1
		switch op.Kind {
		case "block":
			L := ref.APILayout(md.s)
			proof := L.Proof(op.Dels)
			dh := ref.Hashes(op.Dels)
			adds := hashesFor(md.s.N(), op.Adds)
			fr := lightFrame{prev: md.s.Clone(), prevDump: c.dump(), op: op, proof: proof, dh: dh,
				prevStump: u.Stump{Roots: append([]Hash(nil), c.stump.Roots...), NumLeaves: c.stump.NumLeaves},
				cachedPre: append([]bool(nil), md.cached...)}
			if f.ArgRev && len(dh) > 1 {
				n := len(dh)
				rh, rt := make([]Hash, n), make([]uint64, n)
				for j := range dh {
					rh[n-1-j], rt[n-1-j] = dh[j], proof.Targets[j]
				}
				dh, proof = rh, u.Proof{Targets: rt, Proof: proof.Proof}
				fr.proof, fr.dh = proof, dh
			}
			ud, err := x.StumpUpdate(&c.stump, dh, adds, proof)
			if err != nil {
				x.Report(f.Prop, "Stump.Update rejects an honest block", err.Error())
				return c, md, false, evals
			}
			x.HoldH("UpdateData.NewDelHash", ud.NewDelHash)
			x.HoldT("UpdateData.NewDelPos", ud.NewDelPos)
			x.HoldH("UpdateData.NewAddHash", ud.NewAddHash)
			x.HoldT("UpdateData.NewAddPos", ud.NewAddPos)
			x.HoldT("UpdateData.ToDestroy", ud.ToDestroy)
			fr.ud = ud
			if last {
				evals++
				checkUpdateData(x, "C11", md.s, op, ud)
			}
			rem := make([]uint32, len(op.Rem))
			for j, r := range op.Rem {
				rem[j] = uint32(r)
			}
			nh, err := x.ProofUpdate(&c.proof, c.hashes, adds, proof.Targets, rem, ud)
			if err != nil {
				rp := "C07"
				if md.hasUndo {
					rp = "C08"
				}
				x.Report(rp, "Proof.Update fails on honest block data", err.Error())
				return c, md, false, evals
			}
			c.hashes = nh
			if withProver {
				if err := x.Modify("Pollard", &c.pol, leavesFor(md.s.N(), op.Adds, nil), dh, proof); err != nil {
					x.Note("blocked: Pollard.Modify failed in the light family")
					return c, md, false, evals
				}
			}
			md.stack = append(md.stack, fr)
			nc := append([]bool(nil), md.cached...)
			for _, d := range op.Dels {
				nc[d] = false
			}
			remSet := map[int]bool{}
			for _, r := range op.Rem {
				remSet[r] = true
			}
			for j := 0; j < op.Adds; j++ {
				nc = append(nc, remSet[j])
			}
			md.cached = nc
			md.s = md.s.Apply(op.Dels, op.Adds)
		case "undo":
			fr := md.stack[len(md.stack)-1]
			md.stack = md.stack[:len(md.stack)-1]
			nh, err := x.ProofUndo(&c.proof, uint64(fr.op.Adds), md.s.Total(), fr.proof.Targets, fr.dh, c.hashes, fr.ud.ToDestroy, fr.proof)
			if err != nil {
				x.Report("C08", "Proof.Undo fails on the undone block's data", err.Error())
				return c, md, false, evals
			}
			c.hashes = nh
			c.stump = fr.prevStump
			LP := ref.APILayout(fr.prev)
			if withProver {
				if err := x.Undo("Pollard", &c.pol, uint64(fr.op.Adds), LP.Proof(fr.op.Dels), ref.Hashes(fr.op.Dels), append([]Hash(nil), LP.Roots...)); err != nil {
					x.Note("blocked: Pollard.Undo failed in the light family")
					return c, md, false, evals
				}
			}
			// expected: what is held now among the leaves that existed before the block
			nc := append([]bool(nil), md.cached[:fr.prev.N()]...)
			md.cached = nc
			md.s = fr.prev
			md.undoBud--
			md.hasUndo = true
			if last {
				frc := fr
				md.lastUndone = &frc
				// leaves the block deleted "are documented as not restored": the client may
				// or may not hold them again; the model follows the client on those only.
				for _, d := range fr.op.Dels {
					if fr.cachedPre[d] && containsHash(c.hashes, ref.LeafHash(d)) {
						md.cached[d] = true
					}
				}
			}
		default:
			panic("light: bad op " + op.Kind)
		}
	}
	return c, md, true, evals
}

func containsHash(hs []Hash, h Hash) bool {
	for _, x := range hs {
		if x == h {
			return true
		}
	}
	return false
}

func (f *LightFamily) Step(n *Node, op Op) StepResult {
	hist := append(append([]Op(nil), n.Hist...), op)
	xp := f.Prop
	if f.Collect != "" {
		xp = f.Collect
	}
	x := NewExec(xp, func() Case { return mkCase("light", lightPayload{Fam: *f, Hist: hist}) })
	x.CaseID = histStr(hist)
	if f.Base > 0 {
		x.CaseID = fmt.Sprintf("base=%d %s", f.Base, x.CaseID)
	}
	c, md, ok, evals := f.run(x, hist)
	res := StepResult{Evals: evals}
	if ok {
		// the model may have adopted restored deleted leaves on an earlier undo; recompute by
		// replaying is not needed because run() applies the same rule deterministically only
		// on the last op. For earlier undos the parent's model is authoritative:
		if pm, _ := n.Model.(*lightModel); pm != nil && op.Kind == "block" {
			nc := append([]bool(nil), pm.cached...)
			for _, d := range op.Dels {
				nc[d] = false
			}
			rs := map[int]bool{}
			for _, r := range op.Rem {
				rs[r] = true
			}
			for j := 0; j < op.Adds; j++ {
				nc = append(nc, rs[j])
			}
			md.cached = nc
		}
		prop := "C07"
		if md.hasUndo {
			prop = "C08"
		}
		res.Evals += checkCachedProof(x, prop, c, md, op.Kind == "undo")
	}
	x.CheckHeld()
	res.Viol = x.Viol
	res.Notes = x.Notes
	res.Nontriv = md.s.NumLive() < md.s.N() || md.hasUndo
	if !ok || len(x.Viol) > 0 {
		res.Terminal = true
		return res
	}
	var sb strings.Builder
	sb.WriteString(md.AbstractKey())
	fmt.Fprintf(&sb, "|u%d|%v|", md.undoBud, md.hasUndo)
	sb.WriteString(c.dump())
	for i := len(md.stack) - 1; i >= 0 && len(md.stack)-i <= md.undoBud; i-- {
		fr := md.stack[i]
		fmt.Fprintf(&sb, "F:%s:%s:%s:%s;", fr.prev.Key(), boolKey(fr.cachedPre), fr.op.String(), fr.prevDump)
	}
	res.Key = sb.String()
	// the stored model only serves Ops() (which asks whether there is something to undo): every
	// transition replays the history from scratch, so drop all frames but the newest to save memory
	if len(md.stack) > 1 {
		md.stack = md.stack[len(md.stack)-1:]
	}
	res.Next = &Node{Hist: hist, Model: md}
	return res
}

// checkCachedProof is the C07/C08 oracle: the client holds exactly the model's cached set, each
// leaf paired with its true position, the proof hashes are canonical, Verify accepts and the
// full prover emits the same proof.
func checkCachedProof(x *Exec, prop string, c *lightClient, md *lightModel, afterUndo bool) int64 {
	when := "after Proof.Update"
	if afterUndo {
		when = "after Proof.Undo"
	}
	L := ref.APILayout(md.s)
	if c.stump.NumLeaves != md.s.Total() || !eqH(c.stump.Roots, L.Roots) {
		x.Report("C01", "Stump leaf count or roots differ from reference in the light-client family", fmt.Sprintf("want N=%d %s got N=%d %s", md.s.Total(), shortHs(L.Roots), c.stump.NumLeaves, shortHs(c.stump.Roots)))
		return 1
	}
	if len(c.hashes) != len(c.proof.Targets) {
		x.Report(prop, "cached proof has a different number of hashes and targets "+when, fmt.Sprintf("%d hashes, %d targets", len(c.hashes), len(c.proof.Targets)))
		return 1
	}
	got := map[int]uint64{}
	for i, h := range c.hashes {
		slot := -1
		for s := 0; s < md.s.N(); s++ {
			if ref.LeafHash(s) == h {
				slot = s
			}
		}
		if slot < 0 {
			if afterUndo {
				x.Report(prop, "cached proof holds a leaf that does not exist in the pre-block state after Proof.Undo (added by the undone block or invented)", fmt.Sprintf("hash %x at target %d", h[:4], c.proof.Targets[i]))
			} else {
				x.Report(prop, "cached proof holds an invented leaf "+when, fmt.Sprintf("hash %x", h[:4]))
			}
			return 1
		}
		if _, dup := got[slot]; dup {
			x.Report(prop, "cached proof holds a leaf twice "+when, fmt.Sprintf("slot %d", slot))
			return 1
		}
		got[slot] = c.proof.Targets[i]
	}
	var want []int
	for s, cch := range md.cached {
		if cch {
			want = append(want, s)
		}
	}
	bad := false
	for _, s := range want {
		p, ok := got[s]
		if !ok {
			sig := "cached proof lost a leaf it should hold " + when
			if afterUndo {
				sig = "Proof.Undo loses a leaf that is live before and after the undone block" + undoTrigger(md, s)
			}
			x.Report(prop, sig, fmt.Sprintf("slot %d missing; holds %v, should hold %v", s, keysOf(got), want))
			bad = true
		} else if p != L.LeafPos[s] {
			x.Report(prop, "cached proof pairs a leaf with a wrong position "+when, fmt.Sprintf("slot %d: want %d got %d", s, L.LeafPos[s], p))
			bad = true
		}
	}
	if !bad && len(got) != len(want) {
		x.Report(prop, "cached proof holds a leaf it should not hold "+when, fmt.Sprintf("holds %v, should hold %v", keysOf(got), want))
		bad = true
	}
	if bad {
		return 1
	}
	// canonical hashes for the held set (targets in the client's order)
	order := make([]int, len(c.hashes))
	for i, h := range c.hashes {
		for s := range got {
			if ref.LeafHash(s) == h {
				order[i] = s
			}
		}
	}
	wp := L.Proof(order)
	if !eqH(wp.Proof, c.proof.Proof) {
		x.Report(prop, "cached proof hashes are not the canonical ones "+when, fmt.Sprintf("slots %v: want %s got %s", order, shortHs(wp.Proof), shortHs(c.proof.Proof)))
		return 1
	}
	if len(c.hashes) > 0 {
		if _, err := x.Verify(c.stump, c.hashes, c.proof); err != nil {
			x.Report(prop, "cached proof does not verify against the verifier state "+when, err.Error())
		}
		if md.s.Base > 0 {
			return 1 // no full prover can exist at this size
		}
		pp, err := x.Prove("Pollard", &c.pol, c.hashes)
		if err != nil {
			x.Note("light: full prover cannot prove the held set")
		} else if !eqProof(pp, c.proof) {
			x.Report(prop, "cached proof differs from what the full prover emits "+when, fmt.Sprintf("client %s prover %s", proofStr(c.proof), proofStr(pp)))
		}
	}
	return 1
}

// undoTrigger names, from the model only, the circumstance under which a leaf was lost by
// Proof.Undo; it is part of the violation signature so that known findings stay narrow.
func undoTrigger(md *lightModel, slot int) string {
	if md.lastUndone == nil {
		return ""
	}
	fr := md.lastUndone
	if len(ref.DestroyedRoots(fr.prev, fr.op.Dels, fr.op.Adds)) > 0 {
		return " [the undone block's additions overwrote an empty root]"
	}
	return " [no empty root was overwritten by the undone block]"
}

func keysOf(m map[int]uint64) []int {
	var out []int
	for k := range m {
		out = append(out, k)
	}
	sort.Ints(out)
	return out
}

// checkUpdateData is the C11 oracle.
func checkUpdateData(x *Exec, prop string, prev ref.State, op Op, ud u.UpdateData) {
	if ud.PrevNumLeaves != prev.Total() {
		x.Report(prop, "UpdateData.PrevNumLeaves is not the leaf count before the additions", fmt.Sprintf("want %d got %d", prev.Total(), ud.PrevNumLeaves))
	}
	wantD := ref.DestroyedRoots(prev, op.Dels, op.Adds)
	if !eqT(wantD, ud.ToDestroy) {
		x.Report(prop, "UpdateData.ToDestroy differs from the empty roots the additions overwrote", fmt.Sprintf("want %v got %v", wantD, ud.ToDestroy))
	}
	dp, dhh := ref.DelUpdates(prev, op.Dels)
	if !eqT(dp, ud.NewDelPos) {
		x.Report(prop, "UpdateData.NewDelPos differs from the paths of the deleted targets", fmt.Sprintf("want %v got %v", dp, ud.NewDelPos))
	} else if !eqH(dhh, ud.NewDelHash) {
		x.Report(prop, "UpdateData.NewDelHash differs from the post-deletion subtree hashes", fmt.Sprintf("positions %v: want %s got %s", dp, shortHs(dhh), shortHs(ud.NewDelHash)))
	}
	ap, ah := ref.AddUpdates(prev, op.Dels, op.Adds)
	if !eqT(ap, ud.NewAddPos) {
		x.Report(prop, "UpdateData.NewAddPos differs from the added leaves and the children of created nodes", fmt.Sprintf("want %v got %v", ap, ud.NewAddPos))
	} else if !eqH(ah, ud.NewAddHash) {
		x.Report(prop, "UpdateData.NewAddHash differs from the true hashes at the listed positions", fmt.Sprintf("positions %v: want %s got %s", ap, shortHs(ah), shortHs(ud.NewAddHash)))
	}
}

func (x *Exec) ProofUpdate(p *u.Proof, cached, adds []Hash, blockTargets []uint64, rem []uint32, ud u.UpdateData) ([]Hash, error) {
	x.calls++
	remC := append([]uint32(nil), rem...)
	oldT, oldP := p.Targets, p.Proof
	s := x.snap("Proof.Update").H("cachedHashes", cached).H("addHashes", adds).T("blockTargets", blockTargets).
		H("updateData.NewDelHash", ud.NewDelHash).T("updateData.NewDelPos", ud.NewDelPos).
		H("updateData.NewAddHash", ud.NewAddHash).T("updateData.NewAddPos", ud.NewAddPos).T("updateData.ToDestroy", ud.ToDestroy).
		T("receiver's previous Targets", oldT).H("receiver's previous Proof", oldP)
	var out []Hash
	err := safe(func() error {
		var e error
		out, e = p.Update(cached, adds, blockTargets, rem, ud)
		return e
	})
	s.check()
	for i := range rem {
		if rem[i] != remC[i] {
			x.Report("C17", "Proof.Update mutated argument remembers", fmt.Sprintf("before %v after %v", remC, rem))
			break
		}
	}
	return out, err
}

func (x *Exec) ProofUndo(p *u.Proof, numAdds, numLeaves uint64, dels []uint64, dh, cached []Hash, toDestroy []uint64, proof u.Proof) ([]Hash, error) {
	x.calls++
	oldT, oldP := p.Targets, p.Proof
	s := x.snap("Proof.Undo").T("dels", dels).H("delHashes", dh).H("cachedHashes", cached).T("toDestroy", toDestroy).P("proof", proof).
		T("receiver's previous Targets", oldT).H("receiver's previous Proof", oldP)
	var out []Hash
	err := safe(func() error {
		var e error
		out, e = p.Undo(numAdds, numLeaves, dels, dh, cached, toDestroy, proof)
		return e
	})
	s.check()
	return out, err
}

func init() {
	Engines["light"] = func(prop string, payload json.RawMessage) ([]Violation, error) {
		var p lightPayload
		if err := json.Unmarshal(payload, &p); err != nil {
			return nil, err
		}
		f := p.Fam
		// replay through Step so that the same model bookkeeping applies
		n := &Node{Model: &lightModel{s: ref.State{Base: f.Base}, undoBud: f.UndoBud}}
		var viol []Violation
		for i, op := range p.Hist {
			r := f.Step(n, op)
			if i == len(p.Hist)-1 || r.Next == nil {
				viol = r.Viol
				break
			}
			n = r.Next
		}
		for i := range viol {
			viol[i].Case = Case{Engine: "light", Payload: payload}
		}
		return viol, nil
	}

	Checks["C07"] = func(c *Ctx) {
		fam := &LightFamily{Nmax: pick(c, 7, 8), Prop: "C07"}
		c.Cov.Rule = "explicit-state BFS over light-client histories: state (N, alive, cached); transition = block(deletion subset of the live leaves, addition count with N<=Nmax, every subset of the additions to remember), executed as Stump.Update + Proof.Update on a client holding only stump, proof and hashes, starting from the empty proof; after every transition the held (hash,position) pairs, the canonical proof hashes, acceptance by Verify and equality with a full Pollard prover's proof are compared with the reference forest; non-trivial = distinct concrete client state with a dead leaf"
		c.Cov.Bound["Nmax"] = fam.Nmax
		BFS(c, fam, 0)
		// the remember indexes of every block listed in descending instead of ascending order
		nd := pick(c, 5, 6)
		c.Cov.Bound["descending_remember_lists.Nmax"] = nd
		BFS(c, &LightFamily{Nmax: nd, Prop: "C07", RemMode: "desc"}, 0)
		c.Cov.Bound["descending_targets.Nmax"] = nd
		BFS(c, &LightFamily{Nmax: nd, Prop: "C07", ArgRev: true}, 0)
		lightBases(c, "C07", pick(c, 3, 4), 0)
		lightMedium(c, "C07", false)
	}
	Checks["C11"] = func(c *Ctx) {
		fam := &LightFamily{Nmax: pick(c, 9, 11), Prop: "C11", RemMode: "none"}
		c.Cov.Rule = "explicit-state BFS over stump histories (every deletion subset x every addition count, N<=Nmax); for every transition the UpdateData returned by Stump.Update is compared field by field with the reference model's derived oracles (empty roots consumed by the binary carry in order of destruction and post-block coordinates; every pre-block path position of the deleted targets with its post-deletion subtree hash; every added leaf and both children of every node created by the additions); non-trivial = distinct stump state with a dead leaf"
		c.Cov.Bound["Nmax"] = fam.Nmax
		BFS(c, fam, 0)
		c.Cov.Bound["descending_targets.Nmax"] = 6
		BFS(c, &LightFamily{Nmax: 6, Prop: "C11", RemMode: "none", ArgRev: true}, 0)
		lightBases(c, "C11", pick(c, 4, 5), 0)
		lightMedium(c, "C11", false)
	}
	Checks["C08"] = func(c *Ctx) {
		fam := &LightFamily{Nmax: 5, Prop: "C08", UndoBud: 2}
		c.Cov.Rule = "the C07 light-client search with Undo transitions (Proof.Undo with the undone block's addition count, targets, deleted hashes, ToDestroy and proof; newest first; budget = undos per path; arbitrary further blocks afterwards); after every undo and after every later update the held set must be exactly the previously held leaves that existed before the block (leaves the block deleted may or may not be back), with true positions, canonical hashes, accepted by Verify against the pre-block stump and equal to the full prover's proof; non-trivial = distinct concrete client state reached through an undo"
		c.Cov.Bound["Nmax"] = fam.Nmax
		c.Cov.Bound["undo_budget"] = fam.UndoBud
		BFS(c, fam, 0)
		if c.Thorough() {
			c.Cov.Bound["deep.Nmax/undo"] = "6/1"
			BFS(c, &LightFamily{Nmax: 6, Prop: "C08", UndoBud: 1}, 0)
		}
		// three undos in a row (and arbitrary further updates in between)
		n3 := pick(c, 4, 5)
		c.Cov.Bound["three_undos.Nmax"] = n3
		BFS(c, &LightFamily{Nmax: n3, Prop: "C08", UndoBud: 3}, 0)
		c.Cov.Bound["descending_targets.Nmax"] = n3
		BFS(c, &LightFamily{Nmax: n3, Prop: "C08", UndoBud: 2, ArgRev: true}, 0)
		lightBases(c, "C08", pick(c, 3, 3), 1)
		lightMedium(c, "C08", true)
	}
}

// lightMedium drives the light client through a closed family of three-block histories on
// 11..17 leaves with irregular deletion patterns (the BFS stops at 7-8 leaves):
// [add N, remember all | none | even slots][delete S, add k remembering all][delete one live leaf]
// (and for C08 an undo of the last block after each step), S = every subset of size <= 2 plus
// every subset of the window of slots 2..9.
func lightMedium(c *Ctx, prop string, undo bool, collect ...string) {
	defer c.Phase("structured light-client families")()
	Ns := []int{12}
	if c.Thorough() {
		Ns = []int{11, 12, 13, 16, 17}
	}
	c.Cov.Bound["medium.N"] = fmt.Sprint(Ns)
	rm := ""
	if prop == "C11" {
		rm = "none"
	}
	ub := 0
	if undo {
		ub = 1
	}
	fam := &LightFamily{Nmax: 1 << 20, UndoBud: ub, Prop: prop, RemMode: rm}
	if len(collect) > 0 {
		fam.Collect = collect[0]
	}
	type job struct{ hist []Op }
	var jobs []job
	for _, N := range Ns {
		seen := map[string]bool{}
		var sets [][]int
		add := func(x []int) {
			if len(x) > 0 && !seen[fmt.Sprint(x)] {
				seen[fmt.Sprint(x)] = true
				sets = append(sets, x)
			}
		}
		for a := 0; a < N; a++ {
			add([]int{a})
			for b := a + 1; b < N; b++ {
				add([]int{a, b})
			}
		}
		for mask := 1; mask < 256; mask++ {
			var x []int
			for j := 0; j < 8; j++ {
				if mask&(1<<uint(j)) != 0 {
					x = append(x, 2+j)
				}
			}
			add(x)
		}
		all := make([]int, N)
		var evens []int
		for i := range all {
			all[i] = i
			if i%2 == 0 {
				evens = append(evens, i)
			}
		}
		rems := [][]int{all, evens}
		if prop == "C11" {
			rems = [][]int{{}}
		}
		for _, R := range rems {
			for _, S := range sets {
				dead := map[int]bool{}
				for _, d := range S {
					dead[d] = true
				}
				for _, k := range []int{0, 1, 3} {
					kr := make([]int, k)
					for i := range kr {
						kr[i] = i
					}
					if prop == "C11" {
						kr = []int{}
					}
					base := []Op{{Kind: "block", Adds: N, Rem: R}, {Kind: "block", Dels: S, Adds: k, Rem: kr}}
					if undo {
						jobs = append(jobs, job{append(append([]Op(nil), base...), Op{Kind: "undo"})})
					}
					for x := 0; x < N+k; x++ {
						if dead[x] {
							continue
						}
						h := append(append([]Op(nil), base...), Op{Kind: "block", Dels: []int{x}, Rem: []int{}})
						if undo {
							h = append(h, Op{Kind: "undo"})
						}
						jobs = append(jobs, job{h})
					}
				}
			}
		}
	}
	// multi-tree family: forests of three to five trees (14, 15 leaves; thorough also 28, 30, 31); the second block
	// takes from EVERY tree independently one of {nothing, its first leaf, its last leaf, all but its first leaf, the
	// whole tree} (5^trees assignments) and adds 0..3 leaves, so that trees are emptied in the middle of the touched
	// range while the additions carry over them.
	mtNs := []int{14, 15}
	if c.Thorough() {
		mtNs = []int{14, 15, 28, 30, 31}
	}
	c.Cov.Bound["multi_tree.N"] = fmt.Sprint(mtNs)
	for _, N := range mtNs {
		type tr struct{ a, n int }
		var trees []tr
		for a, h := 0, 30; h >= 0; h-- {
			if N&(1<<uint(h)) != 0 {
				trees = append(trees, tr{a, 1 << uint(h)})
				a += 1 << uint(h)
			}
		}
		var all, evens []int
		for i := 0; i < N; i++ {
			all = append(all, i)
			if i%2 == 0 {
				evens = append(evens, i)
			}
		}
		rems := [][]int{all, evens}
		if prop == "C11" {
			rems = [][]int{{}}
		}
		total := 1
		for range trees {
			total *= 5
		}
		for code := 1; code < total; code++ {
			var S []int
			cc := code
			for _, t := range trees {
				ch := cc % 5
				cc /= 5
				switch ch {
				case 1:
					S = append(S, t.a)
				case 2:
					if t.n > 1 {
						S = append(S, t.a+t.n-1)
					}
				case 3:
					for i := 1; i < t.n; i++ {
						S = append(S, t.a+i)
					}
				case 4:
					for i := 0; i < t.n; i++ {
						S = append(S, t.a+i)
					}
				}
			}
			if len(S) == 0 {
				continue
			}
			for _, R := range rems {
				for _, k := range []int{0, 1, 2, 3} {
					kr := make([]int, k)
					for i := range kr {
						kr[i] = i
					}
					if prop == "C11" {
						kr = []int{}
					}
					h := []Op{{Kind: "block", Adds: N, Rem: R}, {Kind: "block", Dels: S, Adds: k, Rem: kr}}
					if undo {
						h = append(h, Op{Kind: "undo"})
					}
					jobs = append(jobs, job{h})
				}
			}
		}
	}
	// aligned-union family: one block deleting any union of up to three disjoint aligned blocks
	// (whole subtrees and single leaves mixed). (a) 16 leaves, every union, remember all / even
	// slots; (b) 32 leaves, unions confined to the left half, remember even slots or just two leaves
	// {i, j} of the first eight (quick: j = i+2; thorough: every pair); (c) thorough: 24, 32 and 33
	// leaves, every union, remember all / even slots.
	type auCfg struct {
		N, within int
		rems      [][]int
		parts     int
	}
	mk := func(N int) (all, evens []int) {
		for i := 0; i < N; i++ {
			all = append(all, i)
			if i%2 == 0 {
				evens = append(evens, i)
			}
		}
		return
	}
	var cfgs []auCfg
	a16, e16 := mk(16)
	cfgs = append(cfgs, auCfg{16, 16, [][]int{a16, e16}, 3})
	// 16 leaves, every two-leaf remember set, unions of up to two (thorough: three) blocks
	var pairs16 [][]int
	for i := 0; i < 16; i++ {
		for j := i + 1; j < 16; j++ {
			pairs16 = append(pairs16, []int{i, j})
		}
	}
	cfgs = append(cfgs, auCfg{16, 16, pairs16, pick(c, 2, 3)})
	_, e32 := mk(32)
	pairs := [][]int{e32}
	for i := 0; i < 8; i++ {
		for j := i + 1; j < 8; j++ {
			if j == i+2 || c.Thorough() {
				pairs = append(pairs, []int{i, j})
			}
		}
	}
	cfgs = append(cfgs, auCfg{32, 16, pairs, 3})
	if c.Thorough() {
		for _, N := range []int{24, 32, 33} {
			a, e := mk(N)
			cfgs = append(cfgs, auCfg{N, N, [][]int{a, e}, 3})
		}
	}
	c.Cov.Bound["aligned_unions"] = "N=16 all unions (also with every two-leaf remember set); N=32 unions within the left half with two-leaf remember sets; thorough: N=24,32,33 all unions"
	for _, cf := range cfgs {
		rems := cf.rems
		if prop == "C11" {
			rems = [][]int{{}}
		}
		for _, S := range alignedUnions(cf.N, cf.parts) {
			if S[len(S)-1] >= cf.within {
				continue
			}
			for _, R := range rems {
				ks := []int{0, 1}
				if up := nextPow2(cf.N) - cf.N; up > 1 {
					ks = append(ks, up) // fills the forest up to one tree, over every empty root on the way
				}
				for _, k := range ks {
					kr := []int{}
					if k >= 1 && prop != "C11" {
						kr = []int{0}
					}
					h := []Op{{Kind: "block", Adds: cf.N, Rem: R}, {Kind: "block", Dels: S, Adds: k, Rem: kr}}
					if undo {
						h = append(h, Op{Kind: "undo"})
					}
					jobs = append(jobs, job{h})
				}
			}
		}
	}
	// gap family (see gapHists): 21 leaves, an interval deleted, then blocks deleting the neighbours
	// of the growing gap; with undo, every history is then undone block by block down to the first
	{
		gapNs, gapW, gapDepth := []int{21}, 3, 2
		if c.Thorough() {
			gapNs, gapW, gapDepth = []int{21, 27}, 5, 3
		}
		before := len(jobs)
		for _, N := range gapNs {
			all, evens := mk(N)
			rems := [][]int{all, evens, {3, N - 2}}
			if prop == "C11" {
				rems = [][]int{{}}
			}
			for _, R := range rems {
				for _, h := range gapHists(N, gapW, []int{0, 2}, gapDepth, R, prop != "C11") {
					if undo {
						for u, nb := 1, len(h); u < nb; u++ {
							h = append(h, Op{Kind: "undo"})
						}
					}
					jobs = append(jobs, job{h})
				}
			}
		}
		c.Cov.Bound["gap_family"] = fmt.Sprintf("N=%v interval width<=%d, %d neighbour blocks; %d histories", gapNs, gapW, gapDepth-1, len(jobs)-before)
		// two-deletion-block family: every [add N][delete S][delete T, add k] (3^N assignments)
		tdN := 8
		if c.Thorough() {
			tdN = 9
		}
		before = len(jobs)
		all, evens := mk(tdN)
		rems := [][]int{all, evens, {0}, {tdN - 1}}
		if prop == "C11" {
			rems = [][]int{{}}
		}
		for _, R := range rems {
			for _, h := range twoDelHists(tdN, []int{0, 1}, R, prop != "C11") {
				if undo {
					h = append(h, Op{Kind: "undo"}, Op{Kind: "undo"})
				}
				jobs = append(jobs, job{h})
			}
		}
		c.Cov.Bound["two_deletion_blocks"] = fmt.Sprintf("N=%d, every disjoint non-empty S,T, remember all / even / first / last; %d histories", tdN, len(jobs)-before)
	}
	// very tall family: 255..513 leaves (rows 7..9, where 8-bit counters and shifts overflow): whole
	// aligned halves and quarters deleted, additions that carry up over the emptied root, then the
	// first / last survivor deleted
	{
		vtNs := []int{255}
		if c.Thorough() {
			vtNs = []int{127, 128, 255, 256, 257, 511, 512, 513}
		}
		before := len(jobs)
		rng := func(a, b int) []int {
			var x []int
			for i := a; i < b; i++ {
				x = append(x, i)
			}
			return x
		}
		for _, N := range vtNs {
			p2 := 1
			for p2*2 <= N {
				p2 *= 2
			}
			half, quarter := p2/2, p2/4
			_, evens := mk(N)
			rems := [][]int{evens, {0, half, p2 - 1, N - 1}}
			if prop == "C11" {
				rems = [][]int{{}}
			}
			for _, R := range rems {
				for _, S := range [][]int{rng(0, half), rng(half, p2), rng(quarter, half), rng(0, p2), {0}, {half}, rng(1, half), rng(half, p2-1)} {
					for _, k := range []int{0, 1, 3} {
						kr := []int{}
						if prop != "C11" {
							kr = rng(0, k)
						}
						h := []Op{{Kind: "block", Adds: N, Rem: R}, {Kind: "block", Dels: S, Adds: k, Rem: kr}}
						dead := map[int]bool{}
						for _, d := range S {
							dead[d] = true
						}
						first := -1
						for x := 0; x < N && first < 0; x++ {
							if !dead[x] {
								first = x
							}
						}
						if first >= 0 {
							h = append(h, Op{Kind: "block", Dels: []int{first}, Adds: 1, Rem: kr[:0]})
						}
						if undo {
							for u, nb := 1, len(h); u < nb; u++ {
								h = append(h, Op{Kind: "undo"})
							}
						}
						jobs = append(jobs, job{h})
					}
				}
			}
		}
		c.Cov.Bound["very_tall"] = fmt.Sprintf("N=%v, aligned halves / quarters / near-halves deleted, 0,1,3 additions, then the first survivor; %d histories", vtNs, len(jobs)-before)
	}
	// huge blocks: a single block with 65535 / 65536 / 65537 additions (16-bit addition counts wrap
	// here), on an empty accumulator and on a small one with an empty root to write over
	{
		before := len(jobs)
		for _, k := range []int{1<<16 - 1, 1 << 16, 1<<16 + 1} {
			kr := []int{}
			if prop != "C11" {
				kr = []int{0, k - 1}
			}
			h1 := []Op{{Kind: "block", Adds: k, Rem: kr}}
			h2 := []Op{{Kind: "block", Adds: 3, Rem: kr[:0]}, {Kind: "block", Dels: []int{2}, Adds: k, Rem: kr}}
			for _, h := range [][]Op{h1, h2} {
				if undo {
					h = append(h, Op{Kind: "undo"})
				}
				jobs = append(jobs, job{h})
			}
		}
		c.Cov.Bound["huge_blocks"] = fmt.Sprintf("one block of 65535 / 65536 / 65537 additions on an empty and on a three-leaf accumulator; %d histories", len(jobs)-before)
	}
	var steps, evals int64
	ok := parallelFor(c, len(jobs), func(i int) {
		n, _ := fam.Root()
		for _, op := range jobs[i].hist {
			r := safeStep(c, fam, n, op)
			atomic.AddInt64(&steps, 1)
			atomic.AddInt64(&evals, r.Evals)
			c.Col.Add(r.Viol...)
			for _, nt := range r.Notes {
				c.Col.Note(nt)
			}
			if r.Next == nil {
				break
			}
			n = r.Next
		}
		if i%4999 == 0 {
			c.Cov.Sample("medium: " + histStr(jobs[i].hist))
		}
	})
	if !ok {
		c.Cov.NotExhaustive("deadline reached in the medium light-client family")
	}
	c.Cov.AddStates(int64(len(jobs)))
	c.Cov.AddTransitions(steps)
	c.Cov.AddEvals(evals)
	c.Cov.AddNontrivial(int64(len(jobs)))
	c.Cov.SetExtra("medium_family_histories", len(jobs))
}

// lightBases runs the light-client family from bare roots of large accumulators (offset-start
// family): Base in {2^k-1, 2^k, 2^k+1 : k in 5, 31, 32, 62} plus 2^63-1, so that update data,
// cached proofs and their undo are exercised at rows 5..63.
func lightBases(c *Ctx, prop string, nmax, undo int) {
	bases := offsetBases(c.Thorough())
	c.Cov.Bound["offset_start.bases"] = fmt.Sprint(bases)
	c.Cov.Bound["offset_start.Nmax"] = nmax
	for _, b := range bases {
		if c.Expired() {
			c.Cov.NotExhaustive("deadline reached in the offset-start family")
			return
		}
		rm := ""
		if prop == "C11" {
			rm = "none"
		}
		BFS(c, &LightFamily{Nmax: nmax, UndoBud: undo, Prop: prop, RemMode: rm, Base: b}, 0)
	}
}

func nextPow2(n int) int {
	p := 1
	for p < n {
		p *= 2
	}
	return p
}

func (f *LightFamily) CaseOf(hist []Op) (Case, string) {
	id := histStr(hist)
	if f.Base > 0 {
		id = fmt.Sprintf("base=%d %s", f.Base, id)
	}
	return mkCase("light", lightPayload{Fam: *f, Hist: hist}), id
}
