package mc

import (
	"encoding/json"
	"fmt"
	"sort"

	u "github.com/utreexo/utreexo"
	"vmc/ref"
)

// C14: AddProof, GetProofSubset, GetMissingPositions (function) and
// MapPollard.GetMissingPositions + VerifyPartialProof, exhaustively over every accumulator
// state with N<=Nmax (every alive subset) and every pair / sub-list / order of target sets.

type helperCase struct {
	Fn    string `json:"fn"` // addproof | subset | missing | mapmissing
	N     int    `json:"n"`
	Alive string `json:"alive"`
	A     []int  `json:"a"`               // first leaf list (slots, in the order given)
	B     []int  `json:"b,omitempty"`     // second leaf list / wants
	Extra uint64 `json:"extra,omitempty"` // subset: an uncovered want position (when HasExtra)
	HasX  bool   `json:"hasExtra,omitempty"`
	Mode  string `json:"mode,omitempty"` // mapmissing: remember mode of the partial forest
	TR    uint8  `json:"tr,omitempty"`
}

func (h helperCase) state() ref.State {
	s := ref.State{Alive: make([]bool, len(h.Alive))}
	for i, ch := range h.Alive {
		s.Alive[i] = ch == '1'
	}
	return s
}

func sortedU64(a []uint64) []uint64 {
	out := append([]uint64(nil), a...)
	sort.Slice(out, func(i, j int) bool { return out[i] < out[j] })
	return out
}

func unionSlots(a, b []int) []int {
	seen := map[int]bool{}
	var out []int
	for _, x := range append(append([]int(nil), a...), b...) {
		if !seen[x] {
			seen[x] = true
			out = append(out, x)
		}
	}
	sort.Ints(out)
	return out
}

// evalHelper evaluates one case; violations are reported through x under C14 (and C17 through
// the argument snapshots).
func evalHelper(x *Exec, h helperCase) {
	s := h.state()
	L := ref.APILayout(s)
	N := s.Total()
	stump := u.Stump{Roots: append([]Hash(nil), L.Roots...), NumLeaves: N}
	switch h.Fn {
	case "addproof":
		pa, pb := L.Proof(h.A), L.Proof(h.B)
		ha, hb := ref.Hashes(h.A), ref.Hashes(h.B)
		snap := x.snap("AddProof").P("proofA", pa).P("proofB", pb).H("targetHashesA", ha).H("targetHashesB", hb)
		var hs []Hash
		var pr u.Proof
		err := safe(func() error { hs, pr = u.AddProof(pa, pb, ha, hb, N); return nil })
		snap.check()
		if err != nil {
			x.Report("C14", "AddProof panics on two valid proofs", fmt.Sprintf("state %s A=%v B=%v: %v", s.Key(), h.A, h.B, err))
			return
		}
		un := unionSlots(h.A, h.B)
		if len(hs) != len(pr.Targets) {
			x.Report("C14", "AddProof returns different numbers of hashes and targets", fmt.Sprintf("state %s A=%v B=%v: %d hashes %d targets", s.Key(), h.A, h.B, len(hs), len(pr.Targets)))
			return
		}
		got := map[uint64]Hash{}
		for i, t := range pr.Targets {
			got[t] = hs[i]
		}
		okPairs := len(got) == len(un) && len(pr.Targets) == len(un)
		for _, sl := range un {
			if got[L.LeafPos[sl]] != ref.LeafHash(sl) {
				okPairs = false
			}
		}
		if !okPairs {
			x.Report("C14", "AddProof does not return exactly the union of the targets with their hashes", fmt.Sprintf("state %s A=%v B=%v: got targets %v hashes %s", s.Key(), h.A, h.B, pr.Targets, shortHs(hs)))
			return
		}
		want := L.Proof(un)
		if !eqH(pr.Proof, want.Proof) {
			x.Report("C14", "AddProof does not return the canonical proof hashes of the union", fmt.Sprintf("state %s A=%v B=%v: want %s got %s", s.Key(), h.A, h.B, shortHs(want.Proof), shortHs(pr.Proof)))
			return
		}
		if _, err := x.Verify(stump, hs, pr); err != nil {
			x.Report("C14", "the proof returned by AddProof does not verify", fmt.Sprintf("state %s A=%v B=%v: %v", s.Key(), h.A, h.B, err))
		}
		// feed AddProof's output into GetProofSubset (every single target and the first+last pair)
		// and into GetMissingPositions
		var wantSets [][]int
		for _, sl := range un {
			wantSets = append(wantSets, []int{sl})
		}
		if len(un) > 2 {
			wantSets = append(wantSets, []int{un[len(un)-1], un[0]})
		}
		for _, W := range wantSets {
			var sh []Hash
			var sp u.Proof
			wt := L.Targets(W)
			err := safe(func() error {
				var e error
				sh, sp, e = u.GetProofSubset(pr, hs, wt, N)
				return e
			})
			wantP := L.Proof(W)
			if err != nil {
				x.Report("C14", "GetProofSubset fails on the output of AddProof", fmt.Sprintf("state %s A=%v B=%v wants %v: %v", s.Key(), h.A, h.B, W, err))
			} else if !eqT(sp.Targets, wantP.Targets) || !eqH(sp.Proof, wantP.Proof) || !eqH(sh, ref.Hashes(W)) {
				x.Report("C14", "GetProofSubset of the output of AddProof is not the canonical proof of the subset", fmt.Sprintf("state %s A=%v B=%v wants %v: want %s got %s", s.Key(), h.A, h.B, W, proofStr(wantP), proofStr(sp)))
			}
		}
	case "subset":
		pa := L.Proof(h.A)
		ha := ref.Hashes(h.A)
		wants := L.Targets(h.B)
		if h.HasX {
			wants = append(wants, h.Extra)
		}
		snap := x.snap("GetProofSubset").P("proof", pa).H("hashes", ha).T("wants", wants)
		var hs []Hash
		var pr u.Proof
		err := safe(func() error {
			var e error
			hs, pr, e = u.GetProofSubset(pa, ha, wants, N)
			return e
		})
		snap.check()
		if isPanic(err) {
			x.Report("C14", "GetProofSubset panics", fmt.Sprintf("state %s targets %v wants %v: %v", s.Key(), pa.Targets, wants, err))
			return
		}
		if h.HasX {
			if err == nil {
				x.Report("C14", "GetProofSubset does not fail although a requested target is not covered by the proof", fmt.Sprintf("state %s targets %v wants %v", s.Key(), pa.Targets, wants))
			}
			return
		}
		if err != nil {
			x.Report("C14", "GetProofSubset fails although every requested target is covered", fmt.Sprintf("state %s targets %v wants %v: %v", s.Key(), pa.Targets, wants, err))
			return
		}
		want := L.Proof(h.B)
		if !eqT(pr.Targets, want.Targets) {
			x.Report("C14", "GetProofSubset does not return the targets in the requested order", fmt.Sprintf("state %s targets %v wants %v: got %v", s.Key(), pa.Targets, wants, pr.Targets))
			return
		}
		if !eqH(hs, ref.Hashes(h.B)) {
			x.Report("C14", "GetProofSubset pairs the requested targets with wrong hashes", fmt.Sprintf("state %s targets %v (slots %v) wants %v (slots %v): want %s got %s", s.Key(), pa.Targets, h.A, wants, h.B, shortHs(ref.Hashes(h.B)), shortHs(hs)))
			return
		}
		if !eqH(pr.Proof, want.Proof) {
			x.Report("C14", "GetProofSubset does not return the canonical proof hashes of the subset", fmt.Sprintf("state %s targets %v wants %v: want %s got %s", s.Key(), pa.Targets, wants, shortHs(want.Proof), shortHs(pr.Proof)))
			return
		}
		x.HoldP("GetProofSubset result", pr)
		x.HoldH("GetProofSubset hashes", hs)
	case "missing":
		ta := L.Targets(h.A)
		td := L.Targets(h.B)
		taC := append([]uint64(nil), ta...)
		var miss []uint64
		err := safe(func() error { miss = u.GetMissingPositions(N, ta, td); return nil })
		if err != nil {
			x.Report("C14", "GetMissingPositions panics", fmt.Sprintf("state %s held %v desired %v: %v", s.Key(), taC, L.Targets(h.B), err))
			return
		}
		if !eqT(ta, taC) {
			x.Report("C17", "GetMissingPositions mutated argument proofTargets", fmt.Sprintf("before %v after %v", taC, ta))
		}
		heldNeed, heldComp := L.PathSets(taC)
		have := map[uint64]bool{}
		for _, p := range taC {
			have[p] = true
		}
		for _, p := range heldNeed {
			have[p] = true
		}
		for _, p := range heldComp {
			have[p] = true
		}
		var extra []uint64
		for _, sl := range h.B {
			if p := L.LeafPos[sl]; !containsU64(taC, p) {
				extra = append(extra, p)
			}
		}
		var want []uint64
		for _, p := range L.ProofPositions(extra) {
			if !have[p] {
				want = append(want, p)
			}
		}
		if !eqT(sortedU64(miss), want) || len(miss) != len(want) {
			x.Report("C14", "GetMissingPositions does not return exactly the proof positions that cannot be taken or computed from what is held", fmt.Sprintf("state %s held %v desired %v: want %v got %v", s.Key(), taC, L.Targets(h.B), want, miss))
			return
		}
		// completing the held data with the true hashes at the missing positions must let the
		// union of the targets verify
		avail := map[uint64]Hash{}
		for _, p := range taC {
			avail[p] = L.At[p]
		}
		for _, p := range heldNeed {
			avail[p] = L.At[p]
		}
		for _, p := range heldComp {
			avail[p] = L.At[p] // computable from held targets and proof
		}
		for _, p := range miss {
			avail[p] = L.At[p]
		}
		un := unionSlots(h.A, h.B)
		ut := L.Targets(un)
		var ph []Hash
		for _, p := range L.ProofPositions(ut) {
			hh, ok := avail[p]
			if !ok {
				x.Report("C14", "held data plus the reported missing positions do not cover the proof of the targets", fmt.Sprintf("state %s held %v desired %v missing %v: position %d uncovered", s.Key(), taC, L.Targets(h.B), miss, p))
				return
			}
			ph = append(ph, hh)
		}
		if _, err := x.Verify(stump, ref.Hashes(un), u.Proof{Targets: ut, Proof: ph}); err != nil {
			x.Report("C14", "the proof completed with the missing positions does not verify", fmt.Sprintf("state %s held %v desired %v: %v", s.Key(), taC, L.Targets(h.B), err))
		}
	case "mapmissing":
		// partial forest built by add-all then delete-dead with the given remember mode
		cfg := InstCfg{Kind: "map", Full: false, TR: h.TR, Mode: h.Mode}
		fam := &HistFamily{Nmax: 64, Insts: []InstCfg{cfg}, Or: HistOracle{Prop: "substrate"}}
		var dead []int
		for i, a := range s.Alive {
			if !a {
				dead = append(dead, i)
			}
		}
		hist := []Op{{Kind: "block", Adds: s.N()}}
		if len(dead) > 0 {
			hist = append(hist, Op{Kind: "block", Dels: dead})
		}
		var m *u.MapPollard
		if h.Mode == "fromroots-full" || h.Mode == "fromroots-partial" {
			// a map forest (full or partial) started from the bare roots of the state; then the
			// leaves in B are verified with remember (complete honest proof) and Extra leaves added
			mm := u.NewMapPollardFromRoots(append([]Hash(nil), L.Roots...), N, h.Mode == "fromroots-full")
			m = &mm
			if len(h.B) > 0 {
				pb := L.Proof(h.B)
				if err := safe(func() error { return m.VerifyPartialProof(pb.Targets, ref.Hashes(h.B), pb.Proof, true) }); err != nil {
					x.Note("blocked: VerifyPartialProof(remember) failed while preparing a from-roots forest")
					return
				}
			}
			if k := int(h.Extra); k > 0 {
				if err := safe(func() error { return m.Modify(leavesFor(s.N(), k, func(int) bool { return true }), nil, u.Proof{}) }); err != nil {
					x.Note("blocked: Modify failed while preparing a from-roots forest")
					return
				}
				s = s.Apply(nil, k)
				L = ref.APILayout(s)
			}
		} else {
			insts, _, ok := fam.run(x, hist)
			if !ok {
				x.Note("blocked: partial forest could not be built for mapmissing")
				return
			}
			m = insts[0].m
		}
		td := L.Targets(h.A)
		tdC := append([]uint64(nil), td...)
		var miss []uint64
		err := safe(func() error { miss = m.GetMissingPositions(td); return nil })
		if err != nil {
			x.Report("C14", "MapPollard.GetMissingPositions panics", fmt.Sprintf("state %s targets %v: %v", s.Key(), tdC, err))
			return
		}
		if !eqT(td, tdC) {
			x.Report("C17", "MapPollard.GetMissingPositions mutated argument targets", fmt.Sprintf("before %v after %v", tdC, td))
			copy(td, tdC)
		}
		// stored positions, in API coordinates
		stored := map[uint64]bool{}
		m.Nodes.ForEach(func(k uint64, v u.Leaf) error {
			if p, ok := ref.Translate(k, m.TotalRows, L.R); ok {
				stored[p] = true
			}
			return nil
		})
		var want []uint64
		for _, p := range L.ProofPositions(tdC) {
			if !stored[p] {
				want = append(want, p)
			}
		}
		if !eqT(sortedU64(miss), want) || len(miss) != len(want) {
			x.Report("C14", "MapPollard.GetMissingPositions does not return exactly the canonical proof positions that are not stored", fmt.Sprintf("state %s mode %s TR %d targets %v: want %v got %v", s.Key(), h.Mode, h.TR, tdC, want, miss))
			return
		}
		var ph []Hash
		for _, p := range sortedU64(miss) {
			ph = append(ph, L.At[p])
		}
		hs := ref.Hashes(h.A)
		snap := x.snap("VerifyPartialProof").T("targets", td).H("delHashes", hs).H("proofHashes", ph)
		err = safe(func() error { return m.VerifyPartialProof(td, hs, ph, false) })
		snap.check()
		if err != nil {
			x.Report("C14", "VerifyPartialProof rejects the true hashes at the reported missing positions", fmt.Sprintf("state %s mode %s TR %d targets %v missing %v: %v", s.Key(), h.Mode, h.TR, tdC, miss, err))
		}
	}
}

func containsU64(a []uint64, x uint64) bool {
	for _, y := range a {
		if y == x {
			return true
		}
	}
	return false
}

func init() {
	Engines["helper"] = func(prop string, payload json.RawMessage) ([]Violation, error) {
		var h helperCase
		if err := json.Unmarshal(payload, &h); err != nil {
			return nil, err
		}
		x := NewExec(prop, func() Case { return Case{Engine: "helper", Payload: payload} })
		evalHelper(x, h)
		x.CheckHeld()
		return x.Viol, nil
	}
	Checks["C14"] = func(c *Ctx) { runHelpers(c, "C14") }
}

// helperCases enumerates the case space; emit is called for every case.
func helperCases(c *Ctx, nmax int, permLimit int, emit func(helperCase)) int {
	hf := &HistFamily{PermLimit: permLimit}
	states := 0
	for N := 1; N <= nmax; N++ {
		for mask := 1; mask < 1<<uint(N); mask++ {
			s := ref.State{Alive: make([]bool, N)}
			for i := 0; i < N; i++ {
				s.Alive[i] = mask&(1<<uint(i)) != 0
			}
			states++
			key := s.Key()
			live := s.Live()
			L := ref.APILayout(s)
			sets := subsets(live, false)
			for _, A := range sets {
				for _, B := range sets {
					emit(helperCase{Fn: "addproof", N: N, Alive: key, A: A, B: B})
					emit(helperCase{Fn: "missing", N: N, Alive: key, A: A, B: B})
				}
				if len(A) >= 2 {
					rev := make([]int, len(A))
					for i, a := range A {
						rev[len(A)-1-i] = a
					}
					for _, B := range sets {
						emit(helperCase{Fn: "addproof", N: N, Alive: key, A: rev, B: B})
						emit(helperCase{Fn: "addproof", N: N, Alive: key, A: B, B: rev})
						emit(helperCase{Fn: "missing", N: N, Alive: key, A: rev, B: B})
					}
				}
				// GetProofSubset: A in every order, every sub-list in every order
				for _, ao := range hf.requestOrders(A) {
					for _, W := range subsets(A, false) {
						for _, wo := range hf.requestOrders(W) {
							emit(helperCase{Fn: "subset", N: N, Alive: key, A: ao, B: wo})
						}
					}
					// every single uncovered want: any other position of the forest or just outside
					covered := map[uint64]bool{}
					for _, sl := range A {
						covered[L.LeafPos[sl]] = true
					}
					for p := uint64(0); p < (uint64(2)<<L.R)+1; p++ {
						if !covered[p] {
							emit(helperCase{Fn: "subset", N: N, Alive: key, A: ao, B: nil, Extra: p, HasX: true})
							if len(A) > 1 {
								emit(helperCase{Fn: "subset", N: N, Alive: key, A: ao, B: A[:1], Extra: p, HasX: true})
							}
						}
					}
				}
				for _, mode := range []string{"fromroots-full", "fromroots-partial"} {
					emit(helperCase{Fn: "mapmissing", N: N, Alive: key, A: A, Mode: mode})
					emit(helperCase{Fn: "mapmissing", N: N, Alive: key, A: A, Mode: mode, Extra: 1})
					for _, b := range live {
						emit(helperCase{Fn: "mapmissing", N: N, Alive: key, A: A, B: []int{b}, Mode: mode})
						if N <= 5 {
							emit(helperCase{Fn: "mapmissing", N: N, Alive: key, A: A, B: []int{b}, Mode: mode, Extra: 2})
						}
					}
				}
				for _, mode := range []string{"all", "even", "none"} {
					for _, tr := range []uint8{0, 3, 63} {
						emit(helperCase{Fn: "mapmissing", N: N, Alive: key, A: A, Mode: mode, TR: tr})
						if len(A) >= 2 {
							rev := make([]int, len(A))
							for i, a := range A {
								rev[len(A)-1-i] = a
							}
							emit(helperCase{Fn: "mapmissing", N: N, Alive: key, A: rev, Mode: mode, TR: tr})
						}
					}
				}
			}
		}
	}
	// large target lists: hundreds (thorough: 1300-2600) of targets per proof - indexes and counters of
	// 8 bits wrap here (16-bit ones are out of reach: see the note at largeNs). A few dead leaves; evens, odds, halves and all live leaves.
	largeNs := []int{600}
	if c.Thorough() {
		largeNs = []int{600, 2600} // the helpers and the oracle are quadratic in the list length: 70 000 does not finish
	}
	for _, N := range largeNs {
		s := ref.State{Alive: make([]bool, N)}
		for i := range s.Alive {
			s.Alive[i] = i != 1 && i != 5 && i != N/2
		}
		states++
		key := s.Key()
		live := s.Live()
		var evens, odds, first, second, oddsRev []int
		for i, sl := range live {
			if sl%2 == 0 {
				evens = append(evens, sl)
			} else {
				odds = append(odds, sl)
			}
			if i < len(live)/2 {
				first = append(first, sl)
			} else {
				second = append(second, sl)
			}
		}
		for i := len(odds) - 1; i >= 0; i-- {
			oddsRev = append(oddsRev, odds[i])
		}
		sets := [][]int{evens, odds, first, second, live, oddsRev}
		for _, A := range sets {
			for _, B := range sets {
				emit(helperCase{Fn: "addproof", N: N, Alive: key, A: A, B: B})
				emit(helperCase{Fn: "missing", N: N, Alive: key, A: A, B: B})
			}
			emit(helperCase{Fn: "subset", N: N, Alive: key, A: live, B: A})
			emit(helperCase{Fn: "mapmissing", N: N, Alive: key, A: A, Mode: "even", TR: 63})
			emit(helperCase{Fn: "mapmissing", N: N, Alive: key, A: A, Mode: "none", TR: 0})
		}
	}
	c.Cov.Bound["large_target_lists.N"] = fmt.Sprint(largeNs)
	return states
}

func runHelpers(c *Ctx, prop string) {
	nmax := pick(c, 7, 8)
	permLimit := pick(c, 3, 4)
	c.Cov.Rule = "for every accumulator state with N<=Nmax (every alive subset): AddProof and GetMissingPositions on every ordered pair of non-empty live leaf sets (first list also reversed); GetProofSubset on every target list in every order (all permutations for |A|<=PermLimit) x every sub-list in every order, plus every single uncovered want; MapPollard.GetMissingPositions + VerifyPartialProof on partial forests (remember all/even/none, TotalRows 0/3/63) and on full and partial forests started from bare roots (then one leaf verified with remember and/or leaves added) for every target set; hashes always parallel to the targets as listed; oracle: reference canonical proofs and path sets; non-trivial = cases with at least two targets in a state with a dead leaf"
	c.Cov.Bound["Nmax"] = nmax
	c.Cov.Bound["PermLimit"] = permLimit
	var cases []helperCase
	flush := func() {
		viols := make([][]Violation, len(cases))
		notes := make([][]string, len(cases))
		ok := parallelFor(c, len(cases), func(i int) {
			h := cases[i]
			x := NewExec(prop, func() Case { return mkCase("helper", h) })
			evalHelper(x, h)
			x.CheckHeld()
			viols[i] = x.Viol
			notes[i] = x.Notes
		})
		if !ok {
			c.Cov.NotExhaustive("deadline reached")
		}
		for i := range cases {
			c.Col.Add(viols[i]...)
			for _, n := range notes[i] {
				c.Col.Note(n)
			}
			c.Cov.AddTransitions(1)
			c.Cov.AddEvals(1)
			h := cases[i]
			if len(h.A)+len(h.B) >= 2 && containsByte(h.Alive, '0') {
				c.Cov.AddNontrivial(1)
			}
		}
		if len(cases) > 0 {
			c.Cov.Sample(cases[len(cases)/3])
		}
		cases = cases[:0]
	}
	states := helperCases(c, nmax, permLimit, func(h helperCase) {
		cases = append(cases, h)
		if len(cases) >= 1<<16 {
			flush()
		}
	})
	flush()
	// structured larger forests: 12, 16 (thorough: also 20 and 32) leaves, all alive or one aligned
	// block deleted; A and B are aligned blocks of live leaves (single leaves and whole subtrees);
	// thorough: A also any union of two blocks
	bigNs := []int{12, 16}
	if c.Thorough() {
		bigNs = []int{12, 16, 20, 32}
	}
	c.Cov.Bound["structured.N"] = fmt.Sprint(bigNs)
	for _, N := range bigNs {
		blocks := alignedUnions(N, 1)
		dels := append([][]int{nil}, blocks...)
		for _, D := range dels {
			if len(D) == N {
				continue
			}
			s := ref.State{}.Apply(nil, N).Apply(D, 0)
			states++
			key := boolKey(s.Alive)
			liveOnly := func(x []int) []int {
				var out []int
				for _, i := range x {
					if s.Alive[i] {
						out = append(out, i)
					}
				}
				return out
			}
			var sets [][]int
			seen := map[string]bool{}
			src := blocks
			if c.Thorough() && N <= 16 {
				src = alignedUnions(N, 2)
			}
			for _, b := range src {
				if l := liveOnly(b); len(l) > 0 && len(l) <= 8 && !seen[fmt.Sprint(l)] {
					seen[fmt.Sprint(l)] = true
					sets = append(sets, l)
				}
			}
			for _, A := range sets {
				for _, B := range sets {
					if len(A)+len(B) > 10 {
						continue
					}
					cases = append(cases, helperCase{Fn: "addproof", N: N, Alive: key, A: A, B: B}, helperCase{Fn: "missing", N: N, Alive: key, A: A, B: B})
				}
				for _, W := range subsets(A, false) {
					if len(A) <= 4 {
						rev := make([]int, len(A))
						for i, a := range A {
							rev[len(A)-1-i] = a
						}
						cases = append(cases, helperCase{Fn: "subset", N: N, Alive: key, A: rev, B: W})
					}
				}
				for _, mode := range []string{"even", "none"} {
					cases = append(cases, helperCase{Fn: "mapmissing", N: N, Alive: key, A: A, Mode: mode, TR: 0}, helperCase{Fn: "mapmissing", N: N, Alive: key, A: A, Mode: mode, TR: 63})
				}
				if len(cases) >= 1<<16 {
					flush()
				}
			}
		}
	}
	flush()
	c.Cov.AddStates(int64(states))
}

func containsByte(s string, b byte) bool {
	for i := 0; i < len(s); i++ {
		if s[i] == b {
			return true
		}
	}
	return false
}
