package mc

import (
	"encoding/json"
	"fmt"
	"runtime/debug"
	"sort"
	"sync/atomic"

	u "github.com/utreexo/utreexo"
	"vmc/ref"
)

// C15: the caching schedule. All block histories (no de-duplication: the tracker is history
// dependent) up to Nmax leaves and depth D; summaries are the reference proof targets in request
// order and the addition counts; every memory limit from 1 to (leaves ever added)+1.

type schedCase struct {
	Hist []Op `json:"history"`
	Mem  int  `json:"maxMemory"`
	Desc bool `json:"descendingTargets,omitempty"` // every block's targets are fed in descending position order
	// Query: "" = one fresh tracker, asked once at the end. "each" = ONE tracker asked after every recorded block
	// with the limit Mem (every answer is checked against the history recorded so far). "alt" = one tracker asked
	// after every block first with a non-binding limit (leaves so far + 1), then with Mem (both checked).
	Query string `json:"query,omitempty"`
}

// schedTrigger classifies, from the model only, whether the history contains the situations in
// which the tracker is known to go wrong (used in signatures so that findings stay narrow).
func schedTrigger(hist []Op) string {
	s := ref.State{}
	emptied, over := false, false
	for _, op := range hist {
		after := s.Apply(op.Dels, 0)
		// a whole tree emptied by this block's deletions?
		L := ref.APILayout(after)
		for _, r := range L.Roots {
			if r == ref.Zero {
				emptied = true
			}
		}
		if len(ref.DestroyedRoots(s, op.Dels, op.Adds)) > 0 {
			over = true
		}
		s = s.Apply(op.Dels, op.Adds)
	}
	switch {
	case over:
		return " [history overwrites an empty root]"
	case emptied:
		return " [history empties a whole tree]"
	}
	return " [no tree is ever emptied]"
}

func evalSched(sc schedCase) (viol []Violation, evals int64) {
	rep := func(sig, detail string) {
		id := fmt.Sprintf("%s m=%d%s", histStr(sc.Hist), sc.Mem, map[bool]string{true: " desc"}[sc.Desc])
		if sc.Query != "" {
			id += " query=" + sc.Query
			sig += " (tracker asked more than once)"
		}
		viol = append(viol, Violation{Prop: "C15", Sig: sig + schedTrigger(sc.Hist), Detail: detail, Case: mkCase("sched", sc), CaseID: id})
	}
	s := ref.State{}
	cs := u.NewCachingScheduleTracker(len(sc.Hist))
	ask := func(upto, mem int) bool {
		var sch [][]uint64
		evals++
		if err := safe(func() error { sch = cs.GenerateCachingSchedule(mem); return nil }); err != nil {
			rep("GenerateCachingSchedule panics", fmt.Sprintf("maxMemory %d after %d blocks: %v", mem, upto, err))
			return false
		}
		return checkSchedule(rep, sc.Hist[:upto], sch, mem)
	}
	for b, op := range sc.Hist {
		L := ref.APILayout(s)
		pr := L.Proof(op.Dels)
		tg := append([]uint64(nil), pr.Targets...)
		if sc.Desc {
			sort.Slice(tg, func(i, j int) bool { return tg[i] > tg[j] })
		}
		if err := safe(func() error { cs.AddBlockSummary(tg, uint16(op.Adds)); return nil }); err != nil {
			rep("AddBlockSummary panics", err.Error())
			return
		}
		s = s.Apply(op.Dels, op.Adds)
		if b == len(sc.Hist)-1 {
			break
		}
		switch sc.Query {
		case "each":
			if !ask(b+1, sc.Mem) {
				return
			}
		case "alt":
			if !ask(b+1, s.N()+1) || !ask(b+1, sc.Mem) {
				return
			}
		}
	}
	if sc.Query == "alt" && !ask(len(sc.Hist), s.N()+1) {
		return
	}
	ask(len(sc.Hist), sc.Mem)
	return
}

// checkSchedule is the C15 oracle for one answer: sch against the birth/death table of hist.
func checkSchedule(rep func(sig, detail string), hist []Op, sch [][]uint64, mem int) bool {
	created := map[int]int{}
	deleted := map[int]int{}
	total := 0
	n := 0
	for b, op := range hist {
		for i := 0; i < op.Adds; i++ {
			created[n+i] = b
		}
		for _, d := range op.Dels {
			deleted[d] = b
		}
		total += op.Adds
		n += op.Adds
	}
	good := true
	rep0 := rep
	rep = func(sig, detail string) { good = false; rep0(sig, detail) }
	if len(sch) != len(hist) {
		rep("schedule does not have one entry per recorded block", fmt.Sprintf("%d entries for %d blocks", len(sch), len(hist)))
		return false
	}
	scheduled := map[int]bool{}
	for b, ps := range sch {
		if !sort.SliceIsSorted(ps, func(i, j int) bool { return ps[i] < ps[j] }) {
			rep("scheduled positions of a block are not ascending", fmt.Sprintf("block %d: %v", b, ps))
		}
		for i, p := range ps {
			if i > 0 && ps[i-1] == p {
				rep("a position is scheduled twice for a block", fmt.Sprintf("block %d: %v", b, ps))
				continue
			}
			slot := int(p)
			cb, ok := created[slot]
			_, del := deleted[slot]
			switch {
			case !ok || cb != b || uint64(slot) != p:
				rep("a scheduled position is not the insertion slot of a leaf added in that block", fmt.Sprintf("maxMemory %d block %d position %d schedule %v", mem, b, p, sch))
			case !del:
				rep("a scheduled leaf is never deleted in a later recorded block", fmt.Sprintf("maxMemory %d block %d position %d schedule %v", mem, b, p, sch))
			case deleted[slot] <= b:
				rep("a scheduled leaf is not deleted in a later block", fmt.Sprintf("maxMemory %d block %d position %d", mem, b, p))
			default:
				scheduled[slot] = true
			}
		}
	}
	for b := range hist {
		cnt := 0
		for slot := range scheduled {
			if created[slot] <= b && deleted[slot] > b {
				cnt++
			}
		}
		if cnt > mem {
			rep("more scheduled leaves exist simultaneously than the memory limit", fmt.Sprintf("maxMemory %d: %d scheduled leaves alive across block %d", mem, cnt, b))
		}
	}
	if mem >= total {
		var missing []int
		for slot := range deleted {
			if !scheduled[slot] {
				missing = append(missing, slot)
			}
		}
		sort.Ints(missing)
		if len(missing) > 0 {
			rep("the schedule misses added-then-deleted leaves although the limit is at least the number of leaves ever alive", fmt.Sprintf("maxMemory %d after %d blocks: missing slots %v schedule %v", mem, len(hist), missing, sch))
		}
	}
	return good
}

func init() {
	Engines["sched"] = func(prop string, payload json.RawMessage) ([]Violation, error) {
		var sc schedCase
		if err := json.Unmarshal(payload, &sc); err != nil {
			return nil, err
		}
		vs, _ := evalSched(sc)
		for i := range vs {
			vs[i].Case = Case{Engine: "sched", Payload: payload}
		}
		return vs, nil
	}

	Checks["C15"] = func(c *Ctx) {
		schedPass(c, pick(c, 6, 6), pick(c, 5, 6), "")
		// wider but shallower: deletions of whole aligned subtrees of 4 need 8 leaves
		schedPass(c, pick(c, 8, 9), 3, "wide.")
		schedAligned(c)
		schedChains(c)
		schedLong(c)
	}
}

// schedChains: long chains of small blocks (a sliding population): block counters and indexes that
// are 8 bits wide go wrong after 256 recorded blocks. Every block adds a leaves and deletes d live
// leaves chosen by a fixed policy; chains of 300 (thorough: also 520) blocks; six memory limits.
func schedChains(c *Ctx) {
	defer c.Phase("schedule chains")()
	lens := []int{300}
	if c.Thorough() {
		lens = []int{300, 520}
	}
	c.Cov.Bound["chains"] = fmt.Sprintf("blocks per chain %v; a in {1,2}, d in {1,2}, policies oldest / newest / middle", lens)
	var hists [][]Op
	for _, L := range lens {
		for _, a := range []int{1, 2} {
			for _, d := range []int{1, 2} {
				for _, policy := range []string{"oldest", "newest", "middle"} {
					hist := []Op{{Kind: "block", Adds: 3}}
					live := []int{0, 1, 2}
					n := 3
					for b := 1; b < L; b++ {
						var dels []int
						for k := 0; k < d && len(live) > 1; k++ {
							idx := 0
							switch policy {
							case "newest":
								idx = len(live) - 1
							case "middle":
								idx = len(live) / 2
							}
							dels = append(dels, live[idx])
							live = append(live[:idx], live[idx+1:]...)
						}
						sortInts(dels)
						hist = append(hist, Op{Kind: "block", Dels: dels, Adds: a})
						for i := 0; i < a; i++ {
							live = append(live, n+i)
						}
						n += a
					}
					hists = append(hists, hist)
				}
			}
		}
	}
	var evalsN int64
	ok := parallelFor(c, len(hists), func(i int) {
		h := hists[i]
		total := 0
		for _, op := range h {
			total += op.Adds
		}
		for _, m := range []int{1, 2, 5, total / 2, total, total + 1} {
			vs, ev := evalSched(schedCase{Hist: h, Mem: m})
			atomic.AddInt64(&evalsN, ev)
			c.Col.Add(vs...)
		}
	})
	if !ok {
		c.Cov.NotExhaustive("deadline reached in the schedule chain family")
	}
	c.Cov.AddStates(int64(len(hists)))
	c.Cov.AddTransitions(evalsN)
	c.Cov.AddEvals(evalsN)
	c.Cov.AddNontrivial(int64(len(hists)))
}

// schedAligned: structured larger histories: [add N][delete a union of up to two aligned blocks,
// add k][delete one aligned block of live leaves][delete one more leaf], N = 12, 16 (thorough: also
// 14, 24, 32), seven memory limits.
func schedAligned(c *Ctx) {
	Ns := []int{12, 16}
	if c.Thorough() {
		Ns = []int{12, 14, 16, 24, 32}
	}
	c.Cov.Bound["aligned.N"] = fmt.Sprint(Ns)
	var hists [][]Op
	for _, N := range Ns {
		blocks := alignedUnions(N, 1)
		for _, S := range alignedUnions(N, 2) {
			dead := map[int]bool{}
			for _, d := range S {
				dead[d] = true
			}
			for _, k := range []int{0, 1} {
				base := []Op{{Kind: "block", Adds: N}, {Kind: "block", Dels: S, Adds: k}}
				hists = append(hists, base)
				for _, b := range blocks {
					var live []int
					for _, x := range b {
						if !dead[x] {
							live = append(live, x)
						}
					}
					if len(live) == 0 || len(live) != len(b) {
						continue
					}
					h := append(append([]Op(nil), base...), Op{Kind: "block", Dels: live})
					hists = append(hists, h)
					// one more single deletion: the lowest live leaf that is left
					for x := 0; x < N+k; x++ {
						if !dead[x] && !containsInt(live, x) {
							hists = append(hists, append(append([]Op(nil), h...), Op{Kind: "block", Dels: []int{x}}))
							break
						}
					}
				}
			}
		}
	}
	var evalsN int64
	ok := parallelFor(c, len(hists), func(i int) {
		h := hists[i]
		total := 0
		for _, op := range h {
			total += op.Adds
		}
		for _, m := range []int{1, 2, 3, total / 2, total - 1, total, total + 1} {
			if m < 1 {
				continue
			}
			vs, ev := evalSched(schedCase{Hist: h, Mem: m})
			atomic.AddInt64(&evalsN, ev)
			c.Col.Add(vs...)
		}
		if i%9973 == 0 {
			c.Cov.Sample("aligned: " + histStr(h))
		}
	})
	if !ok {
		c.Cov.NotExhaustive("deadline reached in the aligned schedule family")
	}
	c.Cov.AddStates(int64(len(hists)))
	c.Cov.AddTransitions(evalsN)
	c.Cov.AddEvals(evalsN)
	c.Cov.AddNontrivial(int64(len(hists)))
}

func containsInt(a []int, x int) bool {
	for _, y := range a {
		if y == x {
			return true
		}
	}
	return false
}

func schedPass(c *Ctx, nmax, depth int, tag string) {
	{
		c.Cov.Rule = "every block history (no de-duplication) with at most Nmax leaves ever added and at most D blocks (every deletion subset of the live leaves x every addition count, non-empty blocks); the summaries fed to AddBlockSummary are the reference proof targets in request order (and, for the limits 1, 2, total and total+1, the same targets in descending position order) and the addition counts; GenerateCachingSchedule is evaluated for every memory limit from 1 to (leaves ever added)+1 on a fresh tracker, and for the limits 1, 2, total-1, total, total+1 also on ONE tracker that is asked after every recorded block (with the same limit each time / alternating with a non-binding limit), every answer checked against the summaries recorded up to then; oracle from the model's birth/death table: every scheduled position of block b is the insertion slot of a leaf added in b and deleted in a later block, ascending without repeats, at most m scheduled leaves alive across any block, complete when m >= leaves ever added, no panic; states = histories, transitions = (history, limit) evaluations, a second, wider and shallower pass (more leaves, depth 3) reaches deletions of whole aligned subtrees of four; a third, structured pass uses 12 and 16 (thorough: up to 32) leaves with unions of aligned blocks deleted over up to four blocks and the memory limits 1, 2, 3, half, total-1, total, total+1; non-trivial = histories with a deletion"
		c.Cov.Bound[tag+"Nmax"] = nmax
		c.Cov.Bound[tag+"depth"] = depth
		// first-level subtrees as parallel tasks: enumerate all histories of depth<=2 as seeds
		type seed struct {
			hist []Op
			s    ref.State
		}
		var seeds []seed
		var gen func(hist []Op, s ref.State, d int)
		nextOps := func(s ref.State) []Op {
			var ops []Op
			for _, dels := range subsets(s.Live(), true) {
				for adds := 0; s.N()+adds <= nmax; adds++ {
					if adds == 0 && len(dels) == 0 {
						continue
					}
					ops = append(ops, Op{Kind: "block", Dels: dels, Adds: adds})
				}
			}
			return ops
		}
		gen = func(hist []Op, s ref.State, d int) {
			if d == 2 || d == depth {
				seeds = append(seeds, seed{hist, s})
				return
			}
			for _, op := range nextOps(s) {
				gen(append(append([]Op(nil), hist...), op), s.Apply(op.Dels, op.Adds), d+1)
			}
			if d > 0 {
				seeds = append(seeds, seed{hist, s}) // shorter histories are cases too (marked by terminal)
			}
		}
		gen(nil, ref.State{}, 0)
		var hists, evalsN, nontriv int64
		var sampled int32
		ok := parallelFor(c, len(seeds), func(i int) {
			sd := seeds[i]
			var rec func(hist []Op, s ref.State, expand bool)
			rec = func(hist []Op, s ref.State, expand bool) {
				if len(hist) > 0 {
					atomic.AddInt64(&hists, 1)
					total := s.N()
					hasDel := false
					for _, op := range hist {
						if len(op.Dels) > 0 {
							hasDel = true
						}
					}
					if hasDel {
						atomic.AddInt64(&nontriv, 1)
					}
					multi := false
					for _, op := range hist {
						if len(op.Dels) > 1 {
							multi = true
						}
					}
					for m := 1; m <= total+1; m++ {
						vs, ev := evalSched(schedCase{Hist: hist, Mem: m})
						atomic.AddInt64(&evalsN, ev)
						c.Col.Add(vs...)
						if len(hist) >= 2 && (m <= 2 || m >= total-1) {
							// ONE tracker asked after every block (a schedule is a function of the summaries recorded
							// so far, whatever was asked before)
							for _, q := range []string{"each", "alt"} {
								vs, ev := evalSched(schedCase{Hist: hist, Mem: m, Query: q})
								atomic.AddInt64(&evalsN, ev)
								c.Col.Add(vs...)
							}
						}
						if multi && (m <= 2 || m >= total) {
							// the same summaries with every target list in descending order
							vs, ev := evalSched(schedCase{Hist: hist, Mem: m, Desc: true})
							atomic.AddInt64(&evalsN, ev)
							c.Col.Add(vs...)
						}
					}
					if hasDel && atomic.AddInt32(&sampled, 1) <= 3 {
						c.Cov.Sample(histStr(hist))
					}
				}
				if !expand || len(hist) >= depth {
					return
				}
				for _, op := range nextOps(s) {
					rec(append(append([]Op(nil), hist...), op), s.Apply(op.Dels, op.Adds), true)
				}
			}
			// seeds of length 2 (or depth) are expanded; shorter ones are evaluated only
			rec(sd.hist, sd.s, len(sd.hist) == 2)
		})
		if !ok {
			c.Cov.NotExhaustive("deadline reached")
		}
		c.Cov.AddStates(hists)
		c.Cov.AddTransitions(evalsN)
		c.Cov.AddEvals(evalsN)
		c.Cov.AddNontrivial(nontriv)
	}
}

// ---- a very long history (more than 65 536 recorded blocks) ----

type schedLongCase struct {
	Blocks int `json:"blocks"`
	Mem    int `json:"maxMemory"`
}

// evalSchedLong: every block adds two leaves; the first dies two blocks later, the second five
// blocks later (a sliding population of seven). The block targets come from a real Pollard run
// alongside (its proofs are C02's subject); the oracle is the birth/death table as in evalSched,
// with a sweep instead of the quadratic alive count. Block indexes kept in 16 bits wrap here.
func evalSchedLong(sc schedLongCase) (viol []Violation) {
	rep := func(sig, detail string) {
		for _, v := range viol {
			if v.Sig == sig+" [very long history]" {
				return
			}
		}
		viol = append(viol, Violation{Prop: "C15", Sig: sig + " [very long history]", Detail: detail, Case: mkCase("schedlong", sc), CaseID: fmt.Sprintf("long blocks=%d m=%d", sc.Blocks, sc.Mem)})
	}
	defer func() {
		if r := recover(); r != nil {
			viol = append(viol, panicViolation("C15", r, debug.Stack(), mkCase("schedlong", sc), fmt.Sprintf("long blocks=%d m=%d", sc.Blocks, sc.Mem)))
		}
	}()
	B := sc.Blocks
	total := 2 * B
	created := make([]int, total)
	deleted := make([]int, total) // 0 = never
	dying := make([][]int, B+6)
	p := u.NewAccumulator()
	cs := u.NewCachingScheduleTracker(B)
	for b := 0; b < B; b++ {
		dels := dying[b]
		sort.Ints(dels)
		hs := ref.Hashes(dels)
		proof, err := p.Prove(hs)
		if err != nil {
			return nil // the prover is not this check's subject
		}
		if err := p.Modify([]u.Leaf{{Hash: ref.LeafHash(2 * b)}, {Hash: ref.LeafHash(2*b + 1)}}, hs, proof); err != nil {
			return nil
		}
		for _, d := range dels {
			deleted[d] = b
		}
		created[2*b], created[2*b+1] = b, b
		dying[b+2] = append(dying[b+2], 2*b)
		dying[b+5] = append(dying[b+5], 2*b+1)
		cs.AddBlockSummary(append([]uint64(nil), proof.Targets...), 2)
	}
	sch := cs.GenerateCachingSchedule(sc.Mem)
	if len(sch) != B {
		rep("schedule does not have one entry per recorded block", fmt.Sprintf("%d entries for %d blocks", len(sch), B))
		return
	}
	scheduled := make([]bool, total)
	diff := make([]int, B+1)
	for b, ps := range sch {
		for i, pos := range ps {
			if i > 0 && ps[i-1] >= pos {
				rep("scheduled positions of a block are not ascending without repeats", fmt.Sprintf("block %d: %v", b, ps))
				continue
			}
			if pos >= uint64(total) || created[pos] != b {
				rep("a scheduled position is not the insertion slot of a leaf added in that block", fmt.Sprintf("maxMemory %d block %d position %d", sc.Mem, b, pos))
				continue
			}
			if deleted[pos] <= b {
				rep("a scheduled leaf is never deleted in a later recorded block", fmt.Sprintf("maxMemory %d block %d position %d", sc.Mem, b, pos))
				continue
			}
			scheduled[pos] = true
			diff[b]++
			diff[deleted[pos]]--
		}
	}
	alive := 0
	for b := 0; b < B; b++ {
		alive += diff[b]
		if alive > sc.Mem {
			rep("more scheduled leaves exist simultaneously than the memory limit", fmt.Sprintf("maxMemory %d: %d scheduled leaves alive across block %d", sc.Mem, alive, b))
			break
		}
	}
	if sc.Mem >= total {
		for slot := 0; slot < total; slot++ {
			if deleted[slot] > 0 && !scheduled[slot] {
				rep("the schedule misses added-then-deleted leaves although the limit is at least the number of leaves ever alive", fmt.Sprintf("maxMemory %d: slot %d (added in block %d, deleted in block %d) is missing", sc.Mem, slot, created[slot], deleted[slot]))
				break
			}
		}
	}
	return
}

func schedLong(c *Ctx) {
	defer c.Phase("schedule: very long history")()
	blocks := 1<<16 + 12
	c.Cov.Bound["very_long_history"] = fmt.Sprintf("%d blocks, two additions per block dying 2 and 5 blocks later; limits 1, 3, 7, all", blocks)
	mems := []int{1, 3, 7, 2 * blocks}
	ok := parallelFor(c, len(mems), func(i int) {
		c.Col.Add(evalSchedLong(schedLongCase{Blocks: blocks, Mem: mems[i]})...)
		c.Cov.AddTransitions(1)
		c.Cov.AddEvals(1)
	})
	if !ok {
		c.Cov.NotExhaustive("deadline reached in the very long schedule history")
	}
	c.Cov.AddStates(1)
}

func init() {
	Engines["schedlong"] = func(prop string, payload json.RawMessage) ([]Violation, error) {
		var sc schedLongCase
		if err := json.Unmarshal(payload, &sc); err != nil {
			return nil, err
		}
		return evalSchedLong(sc), nil
	}
}
