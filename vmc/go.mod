module vmc

go 1.21

require github.com/utreexo/utreexo v0.0.0

require golang.org/x/exp v0.0.0-20220414153411-bcd21879b8fd

replace github.com/utreexo/utreexo => /repo
