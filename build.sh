#!/bin/bash
# Rebuild the checker from /verif/vmc against /repo's current working tree (offline).
set -eu
cd /verif/vmc
export GOFLAGS=-mod=mod GOPROXY=off GOSUMDB=off GOTOOLCHAIN=local
mkdir -p /verif/build
go build -o /verif/build/vmc ./cmd/vmc
