#!/bin/bash
# Rebuild the checkers from /verif/vmc against /repo's current working tree (offline).
#   build/vmc   plain build: /repo through a replace directive, nothing injected
#   build/vmcx  overlay build (tag verif): adds zz_verif_export.go and the verifsync shim package to
#               package utreexo and swaps mappollard.go's "sync" import for the shim (C12, C16)
#   build/vmcxrace  vmcx built with -race (C12's separate free-running race pass)
set -eu
cd /verif/vmc
export GOFLAGS=-mod=mod GOPROXY=off GOSUMDB=off GOTOOLCHAIN=local
mkdir -p /verif/build /verif/vmc/overlay/gen
what=${1:-all}
if [ "$what" = all ] || [ "$what" = vmc ]; then
  go build -o /verif/build/vmc ./cmd/vmc
fi
if [ "$what" = all ] || [ "$what" = vmcx ]; then
  gen=/verif/vmc/overlay/gen
  sed -e 's#^\t"sync"$#\tsync "github.com/utreexo/utreexo/verifsync"#' /repo/mappollard.go > $gen/mappollard.go
  if ! grep -q 'utreexo/verifsync' $gen/mappollard.go; then
    echo "build.sh: could not rewrite the sync import of /repo/mappollard.go" >&2
    exit 3
  fi
  cat > $gen/overlay.json <<JSON
{"Replace": {
 "/repo/mappollard.go": "$gen/mappollard.go",
 "/repo/verifsync/vsync.go": "/verif/vmc/overlay/verifsync/vsync.go",
 "/repo/zz_verif_export.go": "/verif/vmc/overlay/zz_verif_export.go"
}}
JSON
  go build -tags verif -overlay $gen/overlay.json -o /verif/build/vmcx ./cmd/vmc
fi
if [ "$what" = all ] || [ "$what" = vmcxrace ]; then
  # the same overlay build with the race detector, for C12's free-running pass
  gen=/verif/vmc/overlay/gen
  [ -f $gen/overlay.json ] || "$0" vmcx
  go build -race -tags verif -overlay $gen/overlay.json -o /verif/build/vmcxrace ./cmd/vmc
fi
