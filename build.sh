#!/bin/bash
# Rebuild the checkers from /verif/vmc against the repository's current working tree (offline).
#   build/vmc       plain build: the repository through a replace directive, nothing injected
#   build/vmcx      overlay build (tag verif): adds zz_verif_export.go and the verifsync shim package to
#                   package utreexo and swaps mappollard.go's "sync" import for the shim (C12, C16)
#   build/vmcxrace  vmcx built with -race (C12's separate free-running race pass)
# Maintenance: VERIF_REPO=<dir> builds against another checkout (e.g. a scratch worktree holding a
# deliberately broken tree) and VERIF_BUILD=<dir> puts the binaries elsewhere; the registered checks
# use the defaults /repo and /verif/build.
set -eu
cd /verif/vmc
export GOFLAGS=-mod=mod GOPROXY=off GOSUMDB=off GOTOOLCHAIN=local
REPO=${VERIF_REPO:-/repo}
OUT=${VERIF_BUILD:-/verif/build}
gen=/verif/vmc/overlay/gen
MODFLAG=""
mkdir -p "$OUT"
if [ "$REPO" != /repo ]; then
  gen=$OUT/gen
  sed -e "s#=> /repo#=> $REPO#" go.mod > "$OUT/alt.mod"
  cp go.sum "$OUT/alt.sum"
  MODFLAG="-modfile=$OUT/alt.mod"
fi
mkdir -p "$gen"
what=${1:-all}
genoverlay() {
  sed -e 's#^\t"sync"$#\tsync "github.com/utreexo/utreexo/verifsync"#' "$REPO/mappollard.go" > $gen/mappollard.go
  if ! grep -q 'utreexo/verifsync' $gen/mappollard.go; then
    echo "build.sh: could not rewrite the sync import of $REPO/mappollard.go" >&2
    exit 3
  fi
  cat > $gen/overlay.json <<JSON
{"Replace": {
 "$REPO/mappollard.go": "$gen/mappollard.go",
 "$REPO/verifsync/vsync.go": "/verif/vmc/overlay/verifsync/vsync.go",
 "$REPO/verifsync/track.go": "/verif/vmc/overlay/verifsync/track.go",
 "$REPO/verifsync/track_race.go": "/verif/vmc/overlay/verifsync/track_race.go",
 "$REPO/zz_verif_export.go": "/verif/vmc/overlay/zz_verif_export.go"
}}
JSON
}
if [ "$what" = all ] || [ "$what" = vmc ]; then
  go build $MODFLAG -o "$OUT/vmc" ./cmd/vmc
fi
if [ "$what" = all ] || [ "$what" = vmcx ]; then
  genoverlay
  go build $MODFLAG -tags verif -overlay $gen/overlay.json -o "$OUT/vmcx" ./cmd/vmc
fi
if [ "$what" = all ] || [ "$what" = vmcxrace ]; then
  genoverlay
  go build $MODFLAG -race -tags verif -overlay $gen/overlay.json -o "$OUT/vmcxrace" ./cmd/vmc
fi
